"""Operation generators ("kits") per market type, shared by C03 (value/negativity monitor) and C04 (atomicity of
rejections).  A kit looks at the current state through public accessors and proposes one operation with an
argument class: typical, zero, exact, one-ulp-over, oversized, whole-wallet, negative, invalid."""
from decimal import Decimal

ARG_CLASSES = ("typical", "typical", "typical", "small", "zero", "exact", "ulp_over", "ulp_under", "x10", "x1e6", "negative", "dust", "subwei")


class Op:
    __slots__ = ("market", "label", "cls", "fn", "multi", "kind", "info")

    def __init__(self, market, label, cls, fn, multi=False, kind="other", info=None):
        self.market = market  # market type string
        self.label = label
        self.cls = cls
        self.fn = fn
        self.multi = multi  # multi-transaction convenience helper (C04 boundary rule)
        self.kind = kind  # conserve | swap | trade | other   (C03 clause selection)
        self.info = info or {}


def q(x, dec=18):
    """Decimal with at most `dec` fractional digits (what a wallet of that token can hold)."""
    return Decimal(x).quantize(Decimal(1).scaleb(-dec)) if dec < 30 else Decimal(x)


def amount_of(rng, holding: Decimal, cls: str, dec=18) -> Decimal:
    holding = Decimal(holding)
    if cls == "typical":
        a = holding * Decimal(rng.randint(1, 60)) / 100
    elif cls == "small":
        a = holding * Decimal(rng.randint(1, 100)) / 10**6
    elif cls == "zero":
        return Decimal(0)
    elif cls == "dust":  # a few atomic units
        return Decimal(rng.choice([1, 3, 17])).scaleb(-dec)
    elif cls == "subwei":  # positive, affordable, and smaller than any atomic unit
        return Decimal(rng.choice(["1e-22", "3e-27", "4.2e-20"]))
    elif cls == "exact":
        return holding
    elif cls == "ulp_over":
        a = holding * (1 + Decimal("1e-6")) + Decimal(1).scaleb(-dec)
    elif cls == "ulp_under":
        a = holding * (1 - Decimal("1e-6"))
    elif cls == "x10":
        a = holding * 10 + 1
    elif cls == "x1e6":
        a = holding * 10**6 + 1
    elif cls == "negative":
        a = -(holding * Decimal(rng.randint(1, 60)) / 100) - Decimal(1).scaleb(-dec)
    else:
        raise ValueError(cls)
    a = q(a, dec)
    if cls in ("typical", "small") and rng.random() < 0.15:
        # the operations are declared as taking "Decimal | float": hand the same number over as a float (or as an int)
        return int(a) if a == a.to_integral_value() and rng.random() < 0.5 else float(a)
    return a


def bal(broker, tok):
    return broker.assets[tok].balance if tok in broker.assets else Decimal(0)


# ------------------------------------------------------------------------------------------------ uniswap
class UniKit:
    mtype = "uniswap"

    def __init__(self, m, world=None):
        self.m = m

    def _ticks(self, rng):
        m = self.m
        sp = m.pool_info.tick_spacing
        from demeter.uniswap.helper import base_unit_price_to_tick

        cur = base_unit_price_to_tick(
            m.market_status.data.price, m.token0.decimal, m.token1.decimal, m.pool_info.is_token0_quote
        )
        base = (cur // sp) * sp
        where = rng.choice(["in", "in", "in", "below", "above", "wide", "narrow"])
        if where == "in":
            lo, hi = base - sp * rng.randint(1, 40), base + sp * rng.randint(1, 40)
        elif where == "below":  # range entirely below current tick
            hi = base - sp * rng.randint(1, 10)
            lo = hi - sp * rng.randint(1, 40)
        elif where == "above":
            lo = base + sp * rng.randint(2, 10)
            hi = lo + sp * rng.randint(1, 40)
        elif where == "wide":
            lo, hi = base - sp * 2000, base + sp * 2000
        else:
            lo, hi = base, base + sp
        lo = max(lo, -887272 + sp * 2)
        hi = min(hi, 887272 - sp * 2)
        return int(lo), int(hi), where

    def gen(self, rng, broker):
        m = self.m
        b, qt = m.base_token, m.quote_token
        bb, bq = bal(broker, b), bal(broker, qt)
        cls = rng.choice(ARG_CLASSES)
        positions = list(m.positions.keys())
        choice = rng.choice(
            ["add_tick"] * 4 + ["add_price", "add_value", "add_value"] + (["remove"] * 4 + ["collect"] * 2 if positions else [])
            + ["buy", "sell", "swap", "rebalance", "remove_unknown", "remove_all", "add_bad"]
            + (["collect"] * 4 if any(p.pending_amount0 > 0 or p.pending_amount1 > 0 for p in m.positions.values()) else [])
        )
        if choice == "add_tick":
            lo, hi, where = self._ticks(rng)
            side = rng.choice(["both", "both", "base_only", "quote_only", "wallet"])
            if side == "wallet":
                return Op(self.mtype, "add_liquidity_by_tick", f"wallet/{where}", lambda: m.add_liquidity_by_tick(lo, hi), kind="conserve")
            ab = amount_of(rng, bb, cls, b.decimal) if side != "quote_only" else Decimal(0)
            aq = amount_of(rng, bq, rng.choice(ARG_CLASSES), qt.decimal) if side != "base_only" else Decimal(0)
            return Op(self.mtype, "add_liquidity_by_tick", f"{cls}/{side}/{where}", lambda: m.add_liquidity_by_tick(lo, hi, ab, aq), kind="conserve")
        if choice == "add_price":
            lo, hi, where = self._ticks(rng)
            p1, p2 = m.tick_to_price(lo), m.tick_to_price(hi)
            ab, aq = amount_of(rng, bb, cls, b.decimal), amount_of(rng, bq, rng.choice(ARG_CLASSES), qt.decimal)
            return Op(self.mtype, "add_liquidity", f"{cls}/{where}", lambda: m.add_liquidity(min(p1, p2), max(p1, p2), aq, ab), kind="conserve")
        if choice == "add_value":
            lo, hi, where = self._ticks(rng)
            total = bq + bb * m.market_status.data.price
            v = None if cls in ("exact",) and rng.random() < 0.5 else amount_of(rng, total, cls, 18)
            return Op(self.mtype, "add_liquidity_by_value", f"{cls}/{where}", lambda: m.add_liquidity_by_value(lo, hi, v), multi=True, kind="swap")
        if choice == "remove":
            pos = rng.choice(positions)
            held = m.positions[pos].liquidity
            lc = rng.choice(["none", "half", "exact", "plus1", "x10", "negative", "zero"])
            liq = {"none": None, "half": held // 2, "exact": held, "plus1": held + 1, "x10": held * 10 + 7, "negative": -(held // 3) - 1, "zero": 0}[lc]
            collect = rng.random() < 0.6
            return Op(self.mtype, "remove_liquidity", f"{lc}/collect={collect}", lambda: m.remove_liquidity(pos, liq, collect), multi=collect, kind="conserve")
        if choice == "collect":
            pos = rng.choice(positions)
            p = m.positions[pos]
            cc = rng.choice(["none", "half", "over", "over0", "over1", "cross", "negative", "zero", "zero0", "zero1"])
            big = max(p.pending_amount0, p.pending_amount1, Decimal("1e-6"))
            if cc == "none":
                a0 = a1 = None
            elif cc == "half":
                a0, a1 = p.pending_amount0 / 2, p.pending_amount1 / 2
            elif cc == "over":  # both caps above what is pending
                f = Decimal(rng.choice([3, 1000]))
                a0, a1 = p.pending_amount0 * f + Decimal("1e-9"), p.pending_amount1 * f + Decimal("1e-9")
            elif cc == "over0":  # only token0's cap above its pending amount
                a0, a1 = p.pending_amount0 * 2 + Decimal("1e-9"), p.pending_amount1 / 3
            elif cc == "over1":
                a0, a1 = p.pending_amount0 / 3, p.pending_amount1 * 2 + Decimal("1e-9")
            elif cc == "cross":  # each cap lies between the two pending amounts (above one of them, below the other)
                mid = (p.pending_amount0 + p.pending_amount1) / 2 + Decimal("1e-9")
                a0 = a1 = mid if rng.random() < 0.5 else big * 2
            elif cc == "zero0":  # nothing of token0, everything of token1
                a0, a1 = Decimal(0), None
            elif cc == "zero1":
                a0, a1 = None, Decimal(0)
            elif cc == "negative":
                a0, a1 = -p.pending_amount0 - Decimal("1e-9"), -p.pending_amount1 - Decimal("1e-9")
            else:
                a0 = a1 = Decimal(0)
            return Op(self.mtype, "collect_fee", cc, lambda: m.collect_fee(pos, a0, a1), kind="conserve")
        if choice == "buy":
            price = m.market_status.data.price
            a = amount_of(rng, bq / price if price else Decimal(0), cls, b.decimal)
            return Op(self.mtype, "buy", cls, lambda: m.buy(a), kind="swap")
        if choice == "sell":
            a = amount_of(rng, bb, cls, b.decimal)
            return Op(self.mtype, "sell", cls, lambda: m.sell(a), kind="swap")
        if choice == "swap":
            frm, to = rng.choice([(b, qt), (qt, b), (b, b)])
            a = amount_of(rng, bal(broker, frm), cls, frm.decimal)
            lab = "same-token" if frm == to else cls
            return Op(self.mtype, "swap", lab, lambda: m.swap(a, frm, to), kind="swap")
        if choice == "rebalance":
            return Op(self.mtype, "even_rebalance", "wallet", lambda: m.even_rebalance(), multi=True, kind="swap")
        if choice == "remove_unknown":
            from demeter.uniswap import PositionInfo

            pos = PositionInfo(-887220, -887160)
            which = rng.choice(["remove_liquidity", "collect_fee"])
            return Op(self.mtype, which, "unknown-position",
                      (lambda: m.remove_liquidity(pos)) if which == "remove_liquidity" else (lambda: m.collect_fee(pos)), kind="conserve")
        if choice == "remove_all":
            return Op(self.mtype, "remove_all_liquidity", "all", lambda: m.remove_all_liquidity(), multi=True, kind="conserve")
        # add_bad: invalid arguments
        lo, hi, where = self._ticks(rng)
        bad = rng.choice(["off-spacing", "equal-ticks", "out-of-range"])
        ab, aq = amount_of(rng, bb, "typical", b.decimal), amount_of(rng, bq, "typical", qt.decimal)
        if bad == "off-spacing" and m.pool_info.tick_spacing > 1:
            return Op(self.mtype, "add_liquidity_by_tick", bad, lambda: m.add_liquidity_by_tick(lo + 1, hi, ab, aq, trim_tick=False), kind="conserve")
        if bad == "equal-ticks":
            return Op(self.mtype, "add_liquidity_by_tick", bad, lambda: m.add_liquidity_by_tick(lo, lo, ab, aq), kind="conserve")
        return Op(self.mtype, "add_liquidity_by_tick", "out-of-range", lambda: m.add_liquidity_by_tick(-900000, hi, ab, aq, trim_tick=False), kind="conserve")


# ------------------------------------------------------------------------------------------------ aave
class AaveKit:
    mtype = "aave"

    def __init__(self, m, world):
        self.m = m
        self.w = world

    def gen(self, rng, broker):
        m = self.m
        toks = list(self.w.tokens)
        t = rng.choice(toks)
        cls = rng.choice(ARG_CLASSES)
        sk, bk = m.supply_keys, m.borrow_keys
        choice = rng.choice(
            ["supply"] * 4 + (["withdraw"] * 3 + ["change_collateral", "borrow", "borrow", "borrow_max", "withdraw_max"] if sk else ["borrow"])
            + (["repay"] * 3 + ["repay_coll"] if bk else ["repay"]) + ["unknown"]
        )
        if choice == "supply":
            flag = rng.choice([True, True, True, False])
            if t in sk and rng.random() < 0.8:
                flag = m.get_supply(t).collateral if rng.random() < 0.8 else (not m.get_supply(t).collateral)
            a = amount_of(rng, bal(broker, t), cls, t.decimal)
            lab = cls + ("/flag-mismatch" if t in sk and flag != m.get_supply(t).collateral else "") + (
                "/not-collateralizable" if flag and not self.w.risk[t.name]["collateral"] else "")
            return Op(self.mtype, "supply", lab, lambda: m.supply(t, a, flag), kind="conserve")
        if choice == "withdraw":
            t = rng.choice(sk) if rng.random() < 0.9 else t
            held = m.get_supply(t).amount if t in sk else Decimal(1)
            if cls == "exact" and rng.random() < 0.5:
                return Op(self.mtype, "withdraw", "none", lambda: m.withdraw(t, None), kind="conserve")
            a = amount_of(rng, held, cls, 18)
            return Op(self.mtype, "withdraw", cls + ("" if t in sk else "/not-supplied"), lambda: m.withdraw(t, a), kind="conserve")
        if choice == "withdraw_max":
            t = rng.choice(sk)
            f = rng.choice([Decimal(1), Decimal("0.5"), Decimal("1.000001"), Decimal("1.01"), Decimal(2)])

            def fn():
                a = m.get_max_withdraw_amount(t) * f
                return m.withdraw(t, a)

            return Op(self.mtype, "withdraw", f"max*{f}", fn, kind="conserve")
        if choice == "change_collateral":
            t = rng.choice(sk)
            flag = not m.get_supply(t).collateral if rng.random() < 0.8 else m.get_supply(t).collateral
            return Op(self.mtype, "change_collateral", f"to-{flag}", lambda: m.change_collateral(t, flag), kind="conserve")
        if choice == "borrow":
            price = m._price_status[t.name]
            try:
                room = m.get_max_borrow_amount(t)
            except Exception:
                room = Decimal(1)
            room = room if room == room and room > 0 and room != Decimal("inf") else Decimal(1)
            a = amount_of(rng, room, cls, 18)
            return Op(self.mtype, "borrow", cls + ("" if self.w.risk[t.name]["borrow"] else "/not-borrowable"), lambda: m.borrow(t, a), kind="conserve")
        if choice == "borrow_max":
            f = rng.choice([None, Decimal("0.5"), Decimal(1), Decimal("1.02"), Decimal(2)])

            def fn():
                if f is None:
                    return m.borrow(t, None)
                return m.borrow(t, m.get_max_borrow_amount(t) * f)

            return Op(self.mtype, "borrow", f"max*{f}", fn, kind="conserve")
        if choice in ("repay", "repay_coll"):
            t = rng.choice(bk) if bk and rng.random() < 0.9 else t
            debt = m.get_borrow(t).amount if t in bk else Decimal(1)
            a = None if (cls == "exact" and rng.random() < 0.5) else amount_of(rng, debt, cls, 18)
            if choice == "repay":
                return Op(self.mtype, "repay", (cls if a is not None else "none") + ("" if t in bk else "/no-debt"), lambda: m.repay(t, a), kind="conserve")
            ct = rng.choice(sk) if sk and rng.random() < 0.8 else rng.choice(toks)
            return Op(self.mtype, "repay_with_collateral", (cls if a is not None else "none") + ("" if ct in sk else "/coll-not-supplied"),
                      lambda: m.repay(t, a, True, ct), kind="conserve")
        from demeter import TokenInfo

        ghost = TokenInfo("GHOST", 18)
        which = rng.choice(["supply", "withdraw", "borrow", "repay", "change_collateral"])
        fn = {
            "supply": lambda: m.supply(ghost, Decimal(1)), "withdraw": lambda: m.withdraw(ghost, Decimal(1)),
            "borrow": lambda: m.borrow(ghost, Decimal(1)), "repay": lambda: m.repay(ghost, Decimal(1)),
            "change_collateral": lambda: m.change_collateral(ghost, False),
        }[which]
        return Op(self.mtype, which, "unknown-token", fn, kind="conserve")


# ------------------------------------------------------------------------------------------------ squeeth
class SqueethKit:
    mtype = "squeeth"

    def __init__(self, sm, um):
        self.m = sm
        self.um = um
        from demeter import TokenInfo

        self.weth = TokenInfo("weth", 18)
        self.osqth = TokenInfo("osqth", 18)

    def gen(self, rng, broker):
        from demeter.squeeth import VaultKey

        m, um = self.m, self.um
        weth_b, osq_b = bal(broker, self.weth), bal(broker, self.osqth)
        cls = rng.choice(ARG_CLASSES)
        vaults = list(m.vault.keys())
        free_pos = [k for k, p in um.positions.items() if not p.transferred and p.liquidity > 0]
        lent_pos = [k for k, p in um.positions.items() if p.transferred]
        if lent_pos and rng.random() < 0.3:
            # hostile: a position that already backs a vault is offered as collateral once more (must be refused)
            free_pos = lent_pos
        choice = rng.choice(
            ["open"] * 3 + ["open_rate"] + (["deposit", "mint_more", "burn_withdraw", "burn_withdraw", "withdraw_only"] if vaults else [])
            + (["deposit_lp"] * (3 if free_pos is lent_pos else 1) if vaults and free_pos else []) + (["withdraw_lp"] if vaults else [])
            + ["buy_sq", "sell_sq", "unknown_vault"]
        )
        if choice == "open":
            eth = amount_of(rng, weth_b, cls, 18)
            ratio = rng.choice([Decimal("0"), Decimal("1.2"), Decimal("1.499"), Decimal("1.501"), Decimal(2), Decimal(4)])
            osq = Decimal(0) if ratio == 0 else m.collateral_amount_to_osqth(abs(eth), ratio)
            lp = rng.choice(free_pos) if free_pos and rng.random() < 0.3 else None
            return Op(self.mtype, "open_deposit_mint", f"{cls}/cr={ratio}/lp={lp is not None}", lambda: m.open_deposit_mint(eth, q(osq), None, lp), kind="conserve")
        if choice == "open_rate":
            eth = amount_of(rng, weth_b, cls, 18)
            rate = rng.choice([Decimal("1.4"), Decimal("1.5"), Decimal(2), Decimal(3)])
            return Op(self.mtype, "open_deposit_mint_by_collat_rate", f"{cls}/cr={rate}", lambda: m.open_deposit_mint_by_collat_rate(eth, rate), kind="conserve")
        if choice == "deposit":
            vk = rng.choice(vaults)
            eth = amount_of(rng, weth_b, cls, 18)
            return Op(self.mtype, "deposit", cls, lambda: m.deposit(vk, eth), kind="conserve")
        if choice == "mint_more":
            vk = rng.choice(vaults)
            v = m.vault[vk]
            base = v.osqth_short_amount if v.osqth_short_amount > 0 else m.collateral_amount_to_osqth(max(v.collateral_amount, Decimal(1)), Decimal(2))
            osq = amount_of(rng, base, cls, 18)
            return Op(self.mtype, "open_deposit_mint", f"mint-more/{cls}", lambda: m.open_deposit_mint(Decimal(0), osq, vk), kind="conserve")
        if choice in ("burn_withdraw", "withdraw_only"):
            vk = rng.choice(vaults)
            v = m.vault[vk]
            burn = Decimal(0) if choice == "withdraw_only" else amount_of(rng, min(v.osqth_short_amount, osq_b) if rng.random() < 0.7 else v.osqth_short_amount, cls, 18)
            wcls = rng.choice(ARG_CLASSES)
            wd = amount_of(rng, v.collateral_amount, wcls, 18)
            return Op(self.mtype, "burn_and_withdraw", f"burn={cls}/wd={wcls}", lambda: m.burn_and_withdraw(vk, burn, wd), kind="conserve")
        if choice == "deposit_lp":
            vk = rng.choice(vaults)
            pos = rng.choice(free_pos)
            return Op(self.mtype, "deposit_uni_position", "lp-already-lent" if free_pos is lent_pos else "lp",
                      lambda: m.deposit_uni_position(vk, pos), kind="revalue")
        if choice == "withdraw_lp":
            vk = rng.choice(vaults)
            pos = m.vault[vk].uni_nft_id
            if pos is None:
                from demeter.uniswap import PositionInfo

                pos = PositionInfo(-600, 600)
            return Op(self.mtype, "withdraw_uni_position", "lp" if m.vault[vk].uni_nft_id is not None else "no-lp", lambda: m.withdraw_uni_position(vk, pos), kind="revalue")
        if choice == "buy_sq":
            price = m.market_status.data["OSQTH"]
            a = amount_of(rng, weth_b / price, cls, 18)
            return Op(self.mtype, "buy_squeeth", cls, lambda: m.buy_squeeth(a), kind="swap")
        if choice == "sell_sq":
            a = amount_of(rng, osq_b, cls, 18)
            return Op(self.mtype, "sell_squeeth", cls, lambda: m.sell_squeeth(a), kind="swap")
        ghost = VaultKey(9999)
        which = rng.choice(["deposit", "burn_and_withdraw", "withdraw_uni_position"])
        from demeter.uniswap import PositionInfo

        fn = {
            "deposit": lambda: m.deposit(ghost, Decimal(1)),
            "burn_and_withdraw": lambda: m.burn_and_withdraw(ghost, Decimal(1), Decimal(1)),
            "withdraw_uni_position": lambda: m.withdraw_uni_position(ghost, PositionInfo(-600, 600)),
        }[which]
        return Op(self.mtype, which, "unknown-vault", fn, kind="conserve")


# ------------------------------------------------------------------------------------------------ deribit
class DeribitKit:
    mtype = "deribit"

    def __init__(self, m, world):
        self.m = m
        self.w = world

    def gen(self, rng, broker):
        m = self.m
        cls = rng.choice(ARG_CLASSES)
        data = m.market_status.data
        names = list(data.index) if data is not None and len(data.index) else []
        held = list(m.positions.keys())
        choice = rng.choice(["deposit", "deposit", "withdraw"] + ["buy"] * 5 + (["sell"] * 5 if held else ["sell"]) + ["unknown"])
        if choice == "deposit":
            a = amount_of(rng, bal(broker, m.token), cls, 18)
            return Op(self.mtype, "deposit", cls, lambda: m.deposit(a), kind="conserve")
        if choice == "withdraw":
            a = amount_of(rng, m.balance, cls, 18)
            return Op(self.mtype, "withdraw", cls, lambda: m.withdraw(a), kind="conserve")
        if choice == "unknown" or not names:
            which = rng.choice(["buy", "sell"])
            return Op(self.mtype, which, "unknown-instrument", (lambda: m.buy("ETH-1JAN30-1-C", Decimal(1))) if which == "buy" else (lambda: m.sell("ETH-1JAN30-1-C", Decimal(1))), kind="trade")
        if choice == "buy":
            name = rng.choice(names)
            row = data.loc[name]
            side = row["asks"]
        else:
            name = rng.choice(held) if held and rng.random() < 0.85 else rng.choice(names)
            row = data.loc[name] if name in data.index else None
            side = row["bids"] if row is not None else []
        total = sum(Decimal(str(x[1])) for x in side) if side else Decimal(1)
        ref = total
        if choice == "sell" and name in m.positions:
            ref = m.positions[name].amount if rng.random() < 0.7 else total
        amt = amount_of(rng, ref, cls, 1 if m.token.name == "BTC" else 0)
        if cls in ("typical", "small") and amt < 1:
            amt = Decimal(1)
        mode = rng.choice(["market", "market", "market", "limit_level", "limit_off", "usd", "cap"])
        kw = {}
        if mode == "limit_level" and side:
            lvl = rng.choice(side)
            kw["price_in_token"] = Decimal(str(lvl[0]))
        elif mode == "limit_off":
            kw["price_in_token"] = Decimal("0.00012345")
        elif mode == "usd" and side and row is not None:
            lvl = rng.choice(side)
            kw["price_in_usd"] = Decimal(str(lvl[0])) * Decimal(str(row["underlying_price"]))
        elif mode == "cap":
            kw["max_mark_price_multiple"] = Decimal(rng.choice(["1.0", "1.01", "1.05", "1.25", "1.5", "2", "3"]))
            if side and row is not None and rng.random() < 0.5:
                # a cap that falls exactly on a displayed level (mark x multiple = level for a buy, mark / multiple = level
                # for a sale): whichever side of the cap such a level is on, the availability check and the fill must agree
                lvl, mark = Decimal(float(rng.choice(side)[0])), Decimal(float(row["mark_price"]))  # the binary values
                if lvl > 0 and mark > 0:
                    mult = lvl / mark if choice == "buy" else mark / lvl
                    if mult >= 1:
                        kw["max_mark_price_multiple"] = mult if rng.random() < 0.5 else float(mult)
                        mode = "cap_on_level"
        state = "" if row is None or row["state"] == "open" else "/closed-instrument"
        trade = (lambda: m.buy(name, amt, **kw)) if choice == "buy" else (lambda: m.sell(name, amt, **kw))
        fn = trade
        if rng.random() < 0.25:
            q_side = choice if rng.random() < 0.8 else ("sell" if choice == "buy" else "buy")

            def fn():
                # a quote first (estimate_cost is a read-only helper; whatever it answers or refuses changes nothing)
                try:
                    m.estimate_cost(name, amt, q_side)
                except Exception:
                    pass
                return trade()
        lab = f"{cls}/{mode}{state}" + ("" if choice == "buy" or name in m.positions else "/not-held")
        return Op(self.mtype, choice, lab, fn, kind="trade", info={"instrument": name})


# ------------------------------------------------------------------------------------------------ gmx
class GmxKit:
    mtype = "gmx"

    def __init__(self, m, world):
        self.m = m
        self.w = world

    def gen(self, rng, broker):
        m = self.m
        cls = rng.choice(ARG_CLASSES)
        t = rng.choice(self.w.tokens)
        if rng.random() < 0.07:
            from demeter import TokenInfo

            ghost = TokenInfo("GHOST", 18)
            which = rng.choice(["buy_glp", "sell_glp"])
            return Op(self.mtype, which, "unknown-token",
                      (lambda: m.buy_glp(ghost, Decimal(1))) if which == "buy_glp" else (lambda: m.sell_glp(ghost, Decimal("0.5"))), kind="trade")
        if rng.random() < 0.55 or m.glp_amount <= 0:
            a = amount_of(rng, bal(broker, t), cls, t.decimal)
            return Op(self.mtype, "buy_glp", cls, lambda: m.buy_glp(t, a), kind="trade", info={"token": t.name})
        a = amount_of(rng, m.glp_amount, cls, 18)
        return Op(self.mtype, "sell_glp", cls, lambda: m.sell_glp(t, a), kind="trade", info={"token": t.name})


class Gmx2Kit:
    mtype = "gmx2"

    def __init__(self, m, world):
        self.m = m
        self.w = world

    def gen(self, rng, broker):
        m = self.m
        cls = rng.choice(ARG_CLASSES)
        if rng.random() < 0.55 or m.amount <= 0:
            side = rng.choice(["long", "short", "both"])
            la = amount_of(rng, bal(broker, m.long_token), cls, m.long_token.decimal) if side != "short" else Decimal(0)
            sa = amount_of(rng, bal(broker, m.short_token), rng.choice(ARG_CLASSES), m.short_token.decimal) if side != "long" else Decimal(0)
            if cls == "dust" and rng.random() < 0.6:
                # worth about one unit in the last place of the pool's USD figures: the float evaluation of the price impact
                # of such a deposit is rounding noise of that size, of either sign
                import math

                d = m.market_status.data
                big = max(float(d.longAmount) * float(d.longPrice), float(d.shortAmount) * float(d.shortPrice),
                          float(getattr(d, "virtualSwapInventoryLong", 0) or 0) * float(d.longPrice),
                          float(getattr(d, "virtualSwapInventoryShort", 0) or 0) * float(d.shortPrice))
                usd = math.ulp(big) * 10 ** rng.uniform(-0.5, 1.6)
                la = Decimal(repr(usd / float(d.longPrice))) if side != "short" else Decimal(0)
                sa = Decimal(repr(usd / float(d.shortPrice))) if side != "long" else Decimal(0)
                cls = "pool-ulp"
            return Op(self.mtype, "deposit", f"{cls}/{side}", lambda: m.deposit(la, sa), kind="trade")
        if cls == "exact" and rng.random() < 0.5:
            return Op(self.mtype, "withdraw", "none", lambda: m.withdraw(None), kind="trade")
        a = amount_of(rng, Decimal(repr(float(m.amount))), cls, 18)
        return Op(self.mtype, "withdraw", cls, lambda: m.withdraw(float(a)), kind="trade")


class BrokerKit:
    """wallet operations of the Broker itself"""

    mtype = "broker"

    def __init__(self, tokens):
        self.tokens = list(tokens)

    def gen(self, rng, broker, prices):
        cls = rng.choice(ARG_CLASSES)
        toks = [t for t in self.tokens if t in broker.assets]
        a, b = rng.sample(toks, 2) if len(toks) >= 2 else (toks[0], toks[0])
        amt = amount_of(rng, bal(broker, a), cls, a.decimal)
        if rng.random() < 0.25:
            amt = float(amt)  # the signatures say Decimal | float
            cls += "/float"
        which = rng.choice(["swap_by_from", "swap_by_to", "subtract_from_balance"])
        if which == "swap_by_from":
            return Op(self.mtype, which, cls, lambda: broker.swap_by_from(a, b, amt, prices), kind="swap")
        if which == "swap_by_to":
            want = Decimal(amt) * prices[a.name] / prices[b.name] if prices[b.name] else Decimal(amt)
            want = q(want, b.decimal)
            if isinstance(amt, float):
                want = float(want)
            return Op(self.mtype, which, cls, lambda: broker.swap_by_to(a, b, want, prices), kind="swap")
        return Op(self.mtype, which, cls, lambda: broker.subtract_from_balance(a, amt), kind="burn")
