"""Process environment for every shard: import demeter from /repo's working tree, silence it, keep it from
writing outside a scratch directory."""
import logging
import os
import sys
import tempfile
import shutil
import atexit
import warnings

REPO = os.environ.get("REPO_DIR", "/repo")
VERIF = os.path.dirname(os.path.dirname(os.path.abspath(__file__)))
TESTDATA = os.path.join(REPO, "tests", "data")

_scratch = None


def setup():
    """Idempotent. Must be called before demeter is imported."""
    global _scratch
    if _scratch is not None:
        return _scratch
    os.environ.setdefault("TQDM_DISABLE", "1")
    sys.dont_write_bytecode = True
    if REPO not in sys.path:
        sys.path.insert(0, REPO)
    warnings.filterwarnings("ignore")
    _scratch = tempfile.mkdtemp(prefix="vmon-")
    os.chdir(_scratch)
    atexit.register(lambda: shutil.rmtree(_scratch, ignore_errors=True))

    import demeter  # noqa: F401  (the working tree's copy)

    if not os.path.abspath(demeter.__file__).startswith(os.path.abspath(REPO)):
        raise RuntimeError(f"demeter imported from {demeter.__file__}, expected under {REPO}")
    logging.disable(logging.CRITICAL)
    # never touch ~/.demeter
    from demeter.data import CacheManager

    CacheManager.load = staticmethod(lambda key: None)
    CacheManager.save = staticmethod(lambda key, df: None)
    import pandas as pd

    pd.options.mode.chained_assignment = None
    return _scratch
