"""Monitor context handed to every check shard, merging of shard results, known-findings matching,
evidence writing and verdict folding."""
import hashlib
import json
import os
import random
import time
from decimal import Decimal
from fractions import Fraction

VERIF = os.path.dirname(os.path.dirname(os.path.abspath(__file__)))
MAX_VIOL_PER_KEY = 3
MAX_SAMPLES = 8
MECH_FIELDS = ("property", "market", "operation", "clause", "site")


def jsonable(o):
    """Best-effort conversion of observed values to something json.dump accepts (for samples/replays)."""
    import datetime

    if o is None or isinstance(o, (bool, int, str)):
        return o
    if isinstance(o, float):
        return o if o == o and abs(o) != float("inf") else repr(o)
    if isinstance(o, (Decimal, Fraction)):
        return str(o)
    if isinstance(o, dict):
        return {str(k): jsonable(v) for k, v in o.items()}
    if isinstance(o, (list, tuple, set, frozenset)):
        return [jsonable(v) for v in o]
    if isinstance(o, (datetime.datetime, datetime.date, datetime.timedelta)):
        return str(o)
    try:
        import numpy as np

        if isinstance(o, np.integer):
            return int(o)
        if isinstance(o, np.floating):
            return float(o)
    except Exception:
        pass
    return repr(o)


def mech_key(mech: dict) -> str:
    return "|".join(f"{k}={mech.get(k, '')}" for k in MECH_FIELDS)


class Monitor:
    """What a shard reports.  evaluations = oracle comparisons performed; nontrivial = set of distinct
    non-trivial case keys; classes = histogram of what the monitors saw."""

    def __init__(self, pid: str, shard: dict, seed: int):
        self.pid = pid
        self.shard = shard
        self.seed = seed
        self.rng = random.Random(f"{seed}/{pid}/{shard.get('shard', 0)}")
        self.evaluations = 0
        self.classes = {}
        self.nontrivial = set()
        self.samples = []
        self._sample_classes = set()
        self.violations = []
        self._viol_count = {}
        self.reach = {}
        self.notes = {}
        self.case_id = None
        self.only_case = shard.get("only_case")

    # ---- counters
    def ev(self, n=1):
        self.evaluations += n

    def cls(self, key, n=1):
        key = str(key)
        self.classes[key] = self.classes.get(key, 0) + n

    def nt(self, key):
        """Register one distinct non-trivial case (key must describe the case, not be a running number)."""
        k = str(key)
        if len(k) > 80:
            k = hashlib.sha1(k.encode()).hexdigest()[:20]
        self.nontrivial.add(k)

    def hit(self, name, n=1):
        self.reach[name] = self.reach.get(name, 0) + n

    def note(self, name, value):
        self.notes[name] = value

    def sample(self, obj, cls=None):
        """Keep a few concrete cases, at most one per class while room remains."""
        if len(self.samples) >= MAX_SAMPLES:
            return
        if cls is not None:
            if cls in self._sample_classes:
                return
            self._sample_classes.add(cls)
        self.samples.append(jsonable(obj))

    # ---- case bookkeeping (replay)
    def want(self, case_id) -> bool:
        """Generators must draw all their randomness for a case *before* calling want(), so that skipping a
        case does not change later ones.  Simplest: derive a per-case rng with case_rng()."""
        self.case_id = case_id
        return self.only_case is None or self.only_case == case_id

    def case_rng(self, case_id):
        return random.Random(f"{self.seed}/{self.pid}/{self.shard.get('shard', 0)}/{case_id}")

    # ---- violations
    def violation(self, market, operation, clause, site="", detail="", data=None):
        mech = {"property": self.pid, "market": market, "operation": operation, "clause": clause, "site": site}
        k = mech_key(mech)
        self._viol_count[k] = self._viol_count.get(k, 0) + 1
        if self._viol_count[k] > MAX_VIOL_PER_KEY:
            return
        self.violations.append(
            {
                "mech": mech,
                "detail": str(detail)[:2000],
                "data": jsonable(data) if data is not None else None,
                "case": jsonable(self.case_id),
                "shard": self.shard,
            }
        )

    def result(self):
        return {
            "evaluations": self.evaluations,
            "classes": self.classes,
            "nontrivial": sorted(self.nontrivial),
            "samples": self.samples,
            "violations": self.violations,
            "viol_count": self._viol_count,
            "reach": self.reach,
            "notes": self.notes,
        }


def merge(results):
    out = {
        "evaluations": 0,
        "classes": {},
        "nontrivial": set(),
        "samples": [],
        "violations": [],
        "viol_count": {},
        "reach": {},
        "notes": {},
    }
    for r in results:
        out["evaluations"] += r["evaluations"]
        for k, v in r["classes"].items():
            out["classes"][k] = out["classes"].get(k, 0) + v
        out["nontrivial"].update(r["nontrivial"])
        for s in r["samples"]:
            if len(out["samples"]) < MAX_SAMPLES:
                out["samples"].append(s)
        out["violations"].extend(r["violations"])
        for k, v in r["viol_count"].items():
            out["viol_count"][k] = out["viol_count"].get(k, 0) + v
        for k, v in r["reach"].items():
            out["reach"][k] = out["reach"].get(k, 0) + v
        for k, v in r["notes"].items():
            out["notes"].setdefault(k, v)
    return out


# ---------------------------------------------------------------- known findings
def load_findings():
    """known_findings.jsonl: one JSON object per line, {"status": "finding"|"fixed", "property":..,
    "market":.., "operation":.., "clause":.., "site":.., "what": "..."}.  Only status == "finding"
    suppresses; a field that is absent or "*" in the entry matches anything."""
    path = os.path.join(VERIF, "known_findings.jsonl")
    out = []
    if os.path.exists(path):
        for line in open(path):
            line = line.strip()
            if line and not line.startswith("#"):
                out.append(json.loads(line))
    return out


def match_finding(mech, findings):
    for f in findings:
        if f.get("status") != "finding":
            continue
        if all(f.get(k, "*") in ("*", mech.get(k, "")) for k in MECH_FIELDS):
            return f
    return None


# ---------------------------------------------------------------- verdict + evidence
def conclude(pid, tier, seed, merged, meta, wall_s, inconclusive_reasons, write_evidence=True):
    """Prints VIOLATION / KNOWN-FINDING / INCONCLUSIVE lines, writes evidence, returns the exit code."""
    findings = load_findings()
    known_seen = {}
    new = []
    for v in merged["violations"]:
        f = match_finding(v["mech"], findings)
        if f is not None:
            known_seen.setdefault(mech_key(v["mech"]), (f, v))
        else:
            new.append(v)
    for k, (f, v) in sorted(known_seen.items()):
        print(f"KNOWN-FINDING: property={pid} {f.get('what', k)} [{k}]")
    exit_code = 0
    replay_dir = os.path.join(VERIF, "replay")
    printed = set()
    for v in new:
        k = mech_key(v["mech"])
        if k in printed:
            continue
        printed.add(k)
        os.makedirs(replay_dir, exist_ok=True)
        h = hashlib.sha1((k + json.dumps(v["case"], sort_keys=True, default=str)).encode()).hexdigest()[:10]
        path = os.path.join(replay_dir, f"{pid}-{h}-s{seed}.json")
        with open(path, "w") as fh:
            json.dump({"property": pid, "tier": tier, "seed": seed, **v}, fh, indent=1, default=str)
        print(f"VIOLATION property={pid} replay={path}")
        print(f"  mechanism: {k}")
        print(f"  detail: {v['detail'][:600]}")
        exit_code = 1
    if exit_code == 0 and inconclusive_reasons:
        for r in inconclusive_reasons:
            print(f"INCONCLUSIVE property={pid} reason={r}")
        exit_code = 3

    n_nt = len(merged["nontrivial"])
    if write_evidence:
        ev = {
            "property_id": pid,
            "tier": tier,
            "seed": int(seed),
            "level": meta.get("level", "exploration"),
            "coverage": {
                "evaluations": int(merged["evaluations"]),
                "distinct_nontrivial": int(n_nt),
                "rule": meta.get("rule", ""),
                "samples": merged["samples"][:MAX_SAMPLES],
                "classes": dict(sorted(merged["classes"].items(), key=lambda kv: -kv[1])[:200]),
                "reach": merged["reach"],
                "notes": merged["notes"],
                "violation_counts": merged["viol_count"],
                "known_findings_seen": sorted(known_seen.keys()),
                "new_violations": sorted(printed),
                "inconclusive": inconclusive_reasons,
                "shards": meta.get("shards", 0),
            },
            "assumptions": meta.get("assumptions", []),
            "wall_s": round(wall_s, 2),
            "violations": len(printed),
        }
        if meta.get("exhaustive"):
            ev["coverage"]["exhaustive"] = True
            ev["coverage"]["exhaustive_domain"] = meta.get("exhaustive_domain", "")
        os.makedirs(os.path.join(VERIF, "evidence"), exist_ok=True)
        with open(os.path.join(VERIF, "evidence", f"{pid}.json"), "w") as fh:
            json.dump(ev, fh, indent=1, default=str)
    verdict = {0: "held", 1: "VIOLATED", 3: "inconclusive"}[exit_code]
    print(
        f"[{pid}] tier={tier} seed={seed} verdict={verdict} evaluations={merged['evaluations']} "
        f"distinct_nontrivial={n_nt} known_findings={len(known_seen)} wall={wall_s:.1f}s"
    )
    return exit_code
