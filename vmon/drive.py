"""Drivers and state projection.

ScriptStrategy runs generated per-bar/per-phase operations inside the real Actuator.run and catches the
exception of each operation individually.  Frozen drives markets at one fixed market state (DirectDriver of
DESIGN.md).  project() is the semantic state projection through public accessors."""
import copy
import traceback
from decimal import Decimal

import pandas as pd

PHASES = ("initialize", "before_bar", "trigger", "on_bar", "after_bar")


def reject_site(exc):
    """file:function of the deepest frame under demeter/ in the traceback of a rejection."""
    site = "?"
    for fs in traceback.extract_tb(exc.__traceback__):
        fn = fs.filename.replace("\\", "/")
        if "/demeter/" in fn:
            site = fn.split("/demeter/", 1)[1] + ":" + fs.name
    return site


class OpResult:
    __slots__ = ("ok", "ret", "exc", "site", "op", "args", "market", "bar", "phase", "uid")

    def __init__(self):
        self.ok = False
        self.ret = None
        self.exc = None
        self.site = None


def call_op(fn, *args, **kwargs) -> OpResult:
    r = OpResult()
    try:
        r.ret = fn(*args, **kwargs)
        r.ok = True
    except Exception as e:  # noqa: a rejection; DemeterError is a RuntimeError, require() raises AssertionError
        r.exc = e
        r.site = reject_site(e)
    return r


def make_script_strategy(script=None, observer=None, triggers=None):
    """script: {(bar, phase): [callable(strategy, snapshot)]}; observer: object with optional methods named like the
    phases plus notify(action)/finalize(strategy); triggers: callable(strategy) -> list of triggers."""
    from demeter import Strategy

    _made[0] += 1

    class _Hooks(Strategy):
        def __init__(self):
            super().__init__()
            self.script = script or {}
            self.observer = observer
            self.bar = 0
            self.snap = None

        def _run(self, phase, snapshot):
            self.snap = snapshot
            if self.observer is not None and hasattr(self.observer, phase):
                getattr(self.observer, phase)(self, snapshot)
            for fn in self.script.get((self.bar, phase), ()):
                fn(self, snapshot)
            for fn in self.script.get(("*", phase), ()):
                fn(self, snapshot)

        def initialize(self):
            self.bar = 0
            if triggers is not None:
                self.triggers.extend(triggers(self))
            self._run("initialize", None)

        def before_bar(self, snapshot):
            self.bar = snapshot.row_id
            self._run("before_bar", snapshot)

        def on_bar(self, snapshot):
            self._run("on_bar", snapshot)

        def after_bar(self, snapshot):
            self._run("after_bar", snapshot)

        def notify(self, action):
            if self.observer is not None and hasattr(self.observer, "notify"):
                self.observer.notify(self, action)

        def finalize(self):
            if self.observer is not None and hasattr(self.observer, "finalize"):
                self.observer.finalize(self)

    if _made[0] % 2:
        # every other strategy gets all its hooks by inheritance from an intermediate class (a family of strategies sharing a
        # base): the hooks of a strategy are its attributes, wherever in the class hierarchy they are defined
        class ScriptStrategy(_Hooks):
            pass

        return ScriptStrategy()
    return _Hooks()


_made = [0]


def build_actuator(markets, prices, quote_token, assets, strategy=None, interval="1min", allow_negative_balance=False):
    from demeter import Actuator

    a = Actuator(allow_negative_balance) if allow_negative_balance else Actuator()
    for m in markets:
        a.broker.add_market(m)
    for tok, amt in assets.items():
        a.broker.set_balance(tok, amt)
    a.set_price(prices, quote_token)
    if strategy is not None:
        a.strategy = strategy
    a.interval = interval
    return a


class Frozen:
    """A broker with markets held at one bar of their data.  Actions are recorded like the Actuator does."""

    def __init__(self, markets, prices_row, quote_token, assets, timestamp, allow_negative_balance=False):
        from demeter import Broker, MarketStatus

        self.actions = []
        self.timestamp = timestamp
        self.broker = Broker(bool(allow_negative_balance), self._record)
        self.broker.quote_token = quote_token
        self.markets = list(markets)
        for m in self.markets:
            self.broker.add_market(m)
        for tok, amt in assets.items():
            self.broker.set_balance(tok, amt)
        self.prices = prices_row
        self.set_bar(timestamp, prices_row)

    def _record(self, action):
        action.timestamp = self.timestamp
        action.set_type()
        self.actions.append(action)

    def set_bar(self, timestamp, prices_row=None):
        from demeter import MarketStatus

        self.timestamp = timestamp
        if prices_row is not None:
            self.prices = prices_row
        for m in self.markets:
            m.set_market_status(MarketStatus(pd.Timestamp(timestamp), None), self.prices)

    def net_value(self):
        return self.broker.get_account_status(self.prices, self.timestamp).net_value

    def status(self):
        return self.broker.get_account_status(self.prices, self.timestamp)


# ---------------------------------------------------------------------------- projection
def _book(market):
    out = {}
    data = market.market_status.data if market.market_status is not None else None
    if data is None or not isinstance(data, pd.DataFrame) or len(data.index) == 0:
        return out
    for name in data.index:
        row = data.loc[name]
        out[str(name)] = (
            tuple((float(x[0]), float(x[1])) for x in row["asks"]),
            tuple((float(x[0]), float(x[1])) for x in row["bids"]),
        )
    return out


def project_market(m):
    from demeter import MarketTypeEnum as T

    t = m.market_info.type
    if t == T.uniswap_v3:
        return {
            str(k): (int(v.liquidity), Decimal(v.pending_amount0), Decimal(v.pending_amount1), bool(v.transferred))
            for k, v in m.positions.items()
        }
    if t == T.aave_v3:
        sup = {}
        for k in m.supply_keys:
            s = m.get_supply(k)
            sup[k.name] = (Decimal(s.base_amount), bool(s.collateral))
        bor = {k.name: Decimal(m.get_borrow(k).base_amount) for k in m.borrow_keys}
        return {"supplies": sup, "borrows": bor}
    if t == T.squeeth:
        return {
            int(v.id): (Decimal(v.collateral_amount), Decimal(v.osqth_short_amount), str(v.uni_nft_id))
            for v in m.vault.values()
        }
    if t == T.deribit_option:
        return {
            "cash": Decimal(m.balance),
            "positions": {
                k: (Decimal(p.amount), Decimal(p.avg_buy_price), Decimal(p.buy_amount), Decimal(p.avg_sell_price), Decimal(p.sell_amount))
                for k, p in m.positions.items()
            },
            "book": _book(m),
        }
    if t == T.gmx_v1:
        return {"glp": Decimal(m.glp_amount), "reward": Decimal(m.reward)}
    if t == T.gmx_v2:
        return {"gm": float(m.amount)}
    return {}


def project(broker, actions=None):
    out = {"wallet": {k.name: Decimal(v.balance) for k, v in broker.assets.items() if v.balance != 0}}
    for info, m in broker.markets.items():
        out[info.name] = project_market(m)
    if actions is not None:
        out["actions"] = (len(actions), tuple(id(a) for a in actions))
    return out


def diff_proj(a, b, path=""):
    """list of human-readable differences between two projections (exact comparison)."""
    out = []
    if isinstance(a, dict) and isinstance(b, dict):
        for k in sorted(set(a) | set(b), key=str):
            if k not in a:
                out.append(f"{path}/{k}: absent -> {b[k]!r}")
            elif k not in b:
                out.append(f"{path}/{k}: {a[k]!r} -> absent")
            else:
                out.extend(diff_proj(a[k], b[k], f"{path}/{k}"))
    elif a != b:
        out.append(f"{path}: {a!r} -> {b!r}")
    return out
