"""pytest plugin (``-p vmon.suitemon``): runs the repository's OWN test suite with runtime monitors installed on demeter's
classes, so that the monitors see the real-data workloads of the suite (polygon USDC/WETH pool, squeeth controller + oSQTH
pool, polygon aave WETH, strategies run through the real Actuator) in addition to the generated ones.

Monitors (class-attribute wrappers, active for every instance the tests create; each delegates unchanged and re-raises):
  reject-atomic   (C04)  an operation that raises leaves the projection (wallet, all markets of the broker, action count)
                         as it was; multi-step helpers may stop at an action-record boundary
  non-negative    (C03)  after every operation no projected holding is negative (unless the broker allows negative balances)
Events are appended to the JSONL file named by VMON_SUITE_OUT; nothing is asserted inside the tests (a monitor never
changes a test's outcome)."""
import functools
import json
import os
import traceback
from decimal import Decimal

OUT = os.environ.get("VMON_SUITE_OUT")
_fh = None
STATE = {"depth": 0, "boundaries": [], "actions": 0, "test": None}
COUNTS = {}

OPS = {
    "demeter.uniswap.market:UniLpMarket": {
        "add_liquidity": False, "add_liquidity_by_tick": False, "add_liquidity_by_value": True, "remove_liquidity": True,
        "collect_fee": False, "buy": False, "sell": False, "swap": False, "even_rebalance": True, "remove_all_liquidity": True,
    },
    "demeter.aave.market:AaveV3Market": {"supply": False, "withdraw": False, "borrow": False, "repay": False, "change_collateral": False},
    "demeter.squeeth.market:SqueethMarket": {
        "open_deposit_mint": False, "open_deposit_mint_by_collat_rate": False, "deposit": False, "burn_and_withdraw": False,
        "deposit_uni_position": False, "withdraw_uni_position": False, "buy_squeeth": False, "sell_squeeth": False,
    },
    "demeter.deribit.market:DeribitOptionMarket": {"buy": False, "sell": False, "deposit": False, "withdraw": False},
    "demeter.gmx.market:GmxMarket": {"buy_glp": False, "sell_glp": False},
    "demeter.gmx.market2:GmxV2Market": {"deposit": False, "withdraw": False},
    "demeter.broker.broker:Broker": {"swap_by_from": False, "swap_by_to": False, "subtract_from_balance": False},
}


def emit(obj):
    global _fh
    if OUT is None:
        return
    if _fh is None:
        _fh = open(OUT, "a")
    obj["test"] = STATE["test"]
    _fh.write(json.dumps(obj, default=str) + "\n")
    _fh.flush()


def count(k, n=1):
    COUNTS[k] = COUNTS.get(k, 0) + n


def broker_of(obj):
    from demeter.broker import Broker

    if isinstance(obj, Broker):
        return obj
    return getattr(obj, "broker", None) or getattr(obj, "_broker", None)


def snap(obj):
    from . import drive as Dr

    br = broker_of(obj)
    try:
        if br is not None:
            p = Dr.project(br)
            # a market that is not (yet) registered in the broker is projected on its own
            if obj is not br and all(m is not obj for m in br.markets.values()):
                p["<self>"] = Dr.project_market(obj)
        else:
            p = {"<self>": Dr.project_market(obj)}
        p["actions"] = STATE["actions"]
        return p
    except Exception as e:  # state that can not be projected (half-initialised market in a unit test)
        return {"<unprojectable>": f"{type(e).__name__}"}


def negatives(proj):
    out = []

    def walk(x, path):
        if isinstance(x, dict):
            for k, v in x.items():
                if k in ("book", "actions"):
                    continue
                walk(v, f"{path}/{k}")
        elif isinstance(x, (tuple, list)):
            for i, v in enumerate(x):
                walk(v, f"{path}[{i}]")
        elif isinstance(x, bool) or x is None or isinstance(x, str):
            return
        elif isinstance(x, (int, float, Decimal)):
            if x < 0:
                out.append(path)

    walk(proj, "")
    return out


def mtype(obj):
    n = type(obj).__name__
    return {"UniLpMarket": "uniswap", "AaveV3Market": "aave", "SqueethMarket": "squeeth", "DeribitOptionMarket": "deribit",
            "GmxMarket": "gmx", "GmxV2Market": "gmx2", "Broker": "broker"}.get(n, n)


def reject_site(exc):
    site = "?"
    for fs in traceback.extract_tb(exc.__traceback__):
        fn = fs.filename.replace("\\", "/")
        if "/demeter/" in fn:
            site = fn.split("/demeter/", 1)[1] + ":" + fs.name
    return site


def wrap_op(cls, name, multi):
    orig = getattr(cls, name)

    @functools.wraps(orig)
    def w(self, *a, **k):
        from . import drive as Dr

        pre = snap(self)
        mark = len(STATE["boundaries"])
        STATE["depth"] += 1
        try:
            ret = orig(self, *a, **k)
        except Exception as e:
            STATE["depth"] -= 1
            post = snap(self)
            bounds = STATE["boundaries"][mark:]
            if STATE["depth"] == 0:
                del STATE["boundaries"][:]
            count(f"reject/{mtype(self)}/{name}")
            if "<unprojectable>" in pre or "<unprojectable>" in post:
                count("unprojectable")
            else:
                ok = post == pre or (multi and any(post == b for b in bounds))
                emit({"mon": "reject-atomic", "market": mtype(self), "op": name, "site": reject_site(e), "ok": ok,
                      "error": f"{type(e).__name__}: {str(e)[:100]}",
                      "diff": None if ok else Dr.diff_proj(pre, post)[:5]})
            raise
        STATE["depth"] -= 1
        if STATE["depth"] == 0:
            del STATE["boundaries"][:]
        post = snap(self)
        count(f"accept/{mtype(self)}/{name}")
        if "<unprojectable>" not in post:
            br = broker_of(self)
            allow_neg = bool(getattr(br, "allow_negative_balance", False))
            neg = [p for p in negatives(post) if p not in negatives(pre)]
            if allow_neg:
                neg = [p for p in neg if not p.startswith("/wallet")]
            emit({"mon": "non-negative", "market": mtype(self), "op": name, "ok": not neg, "paths": neg[:5], "changed": post != pre})
        return ret

    setattr(cls, name, w)


def wrap_record(cls):
    orig = cls._record_action

    @functools.wraps(orig)
    def rec(self, action):
        r = orig(self, action)
        STATE["actions"] += 1
        if STATE["depth"] > 0:
            STATE["boundaries"].append(snap(self))
        return r

    cls._record_action = rec


def install():
    import importlib

    for spec, ops in OPS.items():
        modname, clsname = spec.split(":")
        cls = getattr(importlib.import_module(modname), clsname)
        for name, multi in ops.items():
            if hasattr(cls, name):
                wrap_op(cls, name, multi)
                count("wrapped")
            else:
                emit({"mon": "install", "missing": f"{clsname}.{name}"})
    from demeter.broker import Market

    wrap_record(Market)


# ------------------------------------------------------------------------------------------- pytest hooks
def pytest_configure(config):
    install()


def pytest_runtest_setup(item):
    STATE["test"] = item.nodeid
    STATE["depth"] = 0
    del STATE["boundaries"][:]


def pytest_runtest_logreport(report):
    if report.when == "call":
        emit({"mon": "test", "outcome": report.outcome})


def pytest_sessionfinish(session, exitstatus):
    emit({"mon": "counts", "counts": COUNTS})
