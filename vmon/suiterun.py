"""Runs the repository's own test suite under the monitors of vmon/suitemon.py and returns the recorded events.

The tests are copied (symlinks resolved) to a scratch directory and run with cwd = <scratch>/tests (that is where their
relative data paths resolve, so the real-data backtests run instead of failing on a missing file) and HOME = <scratch>
(so demeter's CacheManager writes its ~/.demeter cache there, not in the user's home).  Nothing is written under /repo."""
import json
import os
import shutil
import subprocess
import sys
import tempfile


def run_suite(timeout=1500, extra_plugins=(), env_extra=None, select=None):
    """returns (events, info).  events = list of dicts written by the plugins; info = {"rc", "tail", "wall"}."""
    import time

    repo = os.environ.get("REPO_DIR", "/repo")
    verif = os.path.dirname(os.path.dirname(os.path.abspath(__file__)))
    scratch = tempfile.mkdtemp(prefix="vmon-suite-")
    t0 = time.time()
    try:
        shutil.copytree(os.path.join(repo, "tests"), os.path.join(scratch, "tests"), symlinks=False)
        out = os.path.join(scratch, "events.jsonl")
        env = dict(os.environ)
        env.update({
            "HOME": scratch, "PYTHONPATH": verif + os.pathsep + repo, "TQDM_DISABLE": "1", "VMON_SUITE_OUT": out,
            "PYTHONDONTWRITEBYTECODE": "1", "MPLBACKEND": "Agg",
        })
        env.update(env_extra or {})
        cmd = [sys.executable, "-m", "pytest", "-q", "-p", "no:cacheprovider", "--timeout=900", "-p", "vmon.suitemon"]
        for p in extra_plugins:
            cmd += ["-p", p]
        if select:
            cmd += list(select)
        try:
            p = subprocess.run(cmd, cwd=os.path.join(scratch, "tests"), env=env, stdout=subprocess.PIPE, stderr=subprocess.STDOUT,
                               text=True, timeout=timeout)
            rc, tail = p.returncode, p.stdout[-1500:]
        except subprocess.TimeoutExpired:
            rc, tail = 124, "timeout"
        events = []
        if os.path.exists(out):
            for line in open(out):
                try:
                    events.append(json.loads(line))
                except Exception:
                    pass
        return events, {"rc": rc, "tail": tail, "wall": round(time.time() - t0, 1)}
    finally:
        shutil.rmtree(scratch, ignore_errors=True)


if __name__ == "__main__":
    ev, info = run_suite()
    print(info["rc"], info["wall"], info["tail"][-300:])
    import collections

    c = collections.Counter((e.get("mon"), e.get("ok")) for e in ev)
    print(c)
    for e in ev:
        if e.get("ok") is False:
            print(json.dumps(e)[:600])
    for e in ev:
        if e.get("mon") == "counts":
            print(e)
