"""Sibling markets: a second instance of a market class, alive in the same process (and, for Aave, under the same broker),
configured differently but fed with the same keys (token names, timestamps, Decimal prices) as the monitored one.

Nothing is asserted about the sibling.  It exists so that state kept per class / per module instead of per instance
(memo tables keyed by price, token name or hour) has a second writer: whatever the sibling leaves behind must not show
in the monitored market's answers.  Realistic counterparts: one pool per fee tier or token pair in a strategy, Aave on
two chains under one account, several option markets in a notebook session."""
import random
from decimal import Decimal

from . import drive as Dr
from . import worlds as W


class UniSibling:
    """Another pool (other decimals, other quote side) that sees the same Decimal price at the same timestamps."""

    def __init__(self, rng, w, m):
        from demeter import MarketInfo, MarketTypeEnum, TokenInfo
        from demeter.uniswap import UniLpMarket, UniV3Pool

        d0, d1 = w.t0.decimal, w.t1.decimal
        alt = [(a, b) for a in (6, 8, 18) for b in (6, 8, 18) if (a, b) != (d0, d1)]
        e0, e1 = rng.choice(alt)
        flip = rng.random() < 0.6
        t0, t1 = TokenInfo("sib0", e0), TokenInfo("sib1", e1)
        q0 = (not w.token0_is_quote) if flip else w.token0_is_quote
        self.pool = UniV3Pool(t0, t1, w.pool.fee_rate * 100, t0 if q0 else t1)
        self.m = UniLpMarket(MarketInfo("sibling", MarketTypeEnum.uniswap_v3), self.pool)
        self.m.data = m.data.copy()
        self.t0, self.t1 = t0, t1
        self.fz = None
        self.tag = f"({e0},{e1})/{'flip' if flip else 'same-side'}"

    def poke(self, rng, timestamp, prices_row, lo, up):
        """move to the bar (its row carries the monitored pool's price) and use every price-derived path once"""
        big = Decimal(10) ** 12
        if self.fz is None:
            import pandas as pd

            row = pd.Series({self.t0.name: Decimal(1), self.t1.name: Decimal(1)})
            self.fz = Dr.Frozen([self.m], row, self.pool.quote_token, {self.t0: big, self.t1: big}, timestamp)
        else:
            self.fz.set_bar(timestamp)
        m = self.m
        r = Dr.call_op(m.add_liquidity_by_tick, lo, up, Decimal(rng.randint(1, 1000)), Decimal(rng.randint(1, 1000)))
        Dr.call_op(m.get_market_balance)
        if r.ok:
            Dr.call_op(m.get_position_status, r.ret[0])
            Dr.call_op(m.remove_liquidity, r.ret[0])
        for t in (self.t0, self.t1):
            self.fz.broker.set_balance(t, big)


class AaveSibling:
    """A second Aave market under the same broker that lists the same token names with other indices and risk rows."""

    def __init__(self, rng, w, name="aave-other"):
        toks = [(t.name, t.decimal) for t in w.tokens]
        self.w = W.AaveWorld(random.Random(rng.random()), n=len(w.index), tokens=toks, start=w.index[0], index_kind="jumpy",
                             all_flags=True, prices=w.prices)
        self.m = self.w.market(name)
        # the sibling's token objects must be the monitored world's (one wallet entry per token)
        self.tokens = list(w.tokens)
        self.funded = False

    def poke(self, rng):
        """reads (and now and then a small write) on the sibling: every accessor that looks a token's row up"""
        m = self.m
        if not self.funded:
            for t in self.tokens:
                Dr.call_op(m.supply, t, Decimal(rng.randint(1, 50)))
            Dr.call_op(m.borrow, self.tokens[-1], Decimal("0.001"))
            self.funded = True
        for t in rng.sample(self.tokens, len(self.tokens)):
            Dr.call_op(m.get_supply, t)
            Dr.call_op(m.get_borrow, t)
        Dr.call_op(lambda: m.supplies)
        Dr.call_op(lambda: m.borrows)
        Dr.call_op(m.get_market_balance)
        Dr.call_op(lambda: m.health_factor)
        if rng.random() < 0.3:
            t = rng.choice(self.tokens)
            Dr.call_op(rng.choice([m.supply, m.withdraw]), t, Decimal("0.01"))
