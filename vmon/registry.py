"""Which properties are claimed, and the per-check manifest texts.  tools/gen_manifest.py turns this into
MANIFEST.json."""
NOTES = (
    "All checks are runtime monitors over executions of the real code in /repo's working tree (imported fresh on "
    "every run). Exit 0 = held on everything explored, 1 = VIOLATION line with a replay file, 3 = INCONCLUSIVE "
    "(a monitor's reach floor was not met or a shard hit the watchdog). Genuine defects that are not repaired are "
    "listed in known_findings.jsonl by mechanism and printed as KNOWN-FINDING lines."
)
NOT_APPLICABLE = {}
CHECKS = {
    "C06": {
        "technique": "exhaustive enumeration of all ticks against a 90-digit Decimal reference; floor checked by definition on tick boundaries",
        "text": "Every one of the 1,774,545 ticks is converted by the real get_sqrt_ratio_at_tick and compared with "
        "sqrt(1.0001^tick)*2^96 at 90 digits (band, strict monotonicity, boundary constants) in both tiers; the reverse "
        "conversion is probed on/next to/between the real tick boundaries (every third tick quick, every tick thorough) and must "
        "return the floor; price helpers and nearest_usable_tick are sampled over decimals, orientations and spacings.",
        "note": "Trusted: Python Decimal at prec 90 and Fraction. Reverse direction and helpers are sampled, not exhaustive, over "
        "sqrt prices strictly between boundaries (4 probes per tick).",
    },
    "C10": {
        "technique": "reference-model monitor: exact Fraction scaled-balance ledger fed with the same accepted operations, compared after every operation and bar change",
        "text": "Random interleavings of supply/withdraw/borrow/repay (cash, collateral of the same or another token, partial, all, "
        "split in parts) over generated index paths (flat/slow/jumpy, liquidity != borrow index, per token) are run on the real "
        "AaveV3Market; after every operation and every bar change every position amount is compared with the exact ledger (5e-19), "
        "wallet deltas and action records with the stated amounts, and fully repaid/withdrawn positions must disappear.",
        "note": "Sampled sequences (not exhaustive). Sequences stop at the first rejection; liquidation is not triggered here. "
        "Wallet equality is up to the Decimal context precision (35 digits).",
    },
    "C04": {
        "technique": "invariant at quiescent points: deep state projection compared around every raising call, rejection sites taken from tracebacks",
        "text": "Frozen-market scenes of every market type (uniswap, aave, uniswap+aave, squeeth with its pool, deribit incl. closed bars, "
        "GMX v1/v2, broker wallet ops) are driven with random operation sequences whose arguments are chosen to be rejected for every "
        "cause (each token short, unsafe HF / collateral ratio, dust, flag mismatch, zero/negative/oversized amounts, unknown keys, closed "
        "market, thin book, price not in book); around each raising call the projection of wallet, positions, visible book and action log "
        "must be identical (multi-step helpers: identical to a transaction boundary). Evidence lists the rejection sites reached.",
        "note": "State = what public accessors show (vmon/drive.py project); caches and has_update flags are outside it. Sampled states and "
        "arguments; a rejection cause whose site never appears in the evidence was not exercised.",
    },
}
