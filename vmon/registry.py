"""Which properties are claimed, and the per-check manifest texts.  tools/gen_manifest.py turns this into
MANIFEST.json."""
NOTES = (
    "All checks are runtime monitors over executions of the real code in /repo's working tree (imported fresh on "
    "every run). Exit 0 = held on everything explored, 1 = VIOLATION line with a replay file, 3 = INCONCLUSIVE "
    "(a monitor's reach floor was not met or a shard hit the watchdog). Genuine defects that are not repaired are "
    "listed in known_findings.jsonl by mechanism and printed as KNOWN-FINDING lines."
)
NOT_APPLICABLE = {}
CHECKS = {
    "C06": {
        "technique": "exhaustive enumeration of all ticks against a 90-digit Decimal reference; floor checked by definition on tick boundaries",
        "text": "Every one of the 1,774,545 ticks is converted by the real get_sqrt_ratio_at_tick and compared with "
        "sqrt(1.0001^tick)*2^96 at 90 digits (band, strict monotonicity, boundary constants) in both tiers; the reverse "
        "conversion is probed on/next to/between the real tick boundaries (every third tick quick, every tick thorough) and must "
        "return the floor; the public wrapper tick_to_sqrt_price_x96 is held to the same band, order and boundary values on every tick; "
        "price helpers (module level and UniLpMarket.tick_to_price / price_to_tick) and nearest_usable_tick are sampled over decimals, "
        "orientations and spacings.",
        "note": "Trusted: Python Decimal at prec 90 and Fraction. Reverse direction and helpers are sampled, not exhaustive, over "
        "sqrt prices strictly between boundaries (4 probes per tick).",
    },
    "C10": {
        "technique": "reference-model monitor: exact Fraction scaled-balance ledger fed with the same accepted operations, compared after every operation and bar change",
        "text": "Random interleavings of supply/withdraw/borrow/repay (cash, collateral of the same or another token, partial, all, "
        "split in parts) over generated index paths (flat/slow/jumpy, liquidity != borrow index, per token) are run on the real "
        "AaveV3Market with deep and shallow wallets; after every operation and every bar change every position amount is compared with the "
        "exact ledger (5e-19), wallet deltas and action records with the stated amounts, fully repaid/withdrawn positions must disappear, a "
        "refused request (more than the wallet or the position holds) must leave ledger and wallet where they were, and a repayment larger "
        "than the debt (by the token's last decimal, a few wei, 1e-12, half more) must be refused.",
        "note": "Sampled sequences (not exhaustive); they continue after a rejection. Liquidation is not triggered here. A subtraction that "
        "leaves a scaled balance under 1e-18 clears the position (the code's quantum, mirrored exactly). "
        "Wallet equality is up to the Decimal context precision (35 digits).",
    },
    "C03": {
        "technique": "invariant at quiescent points: reported net value and deep state projection compared around every operation (accepted or rejected) at a frozen market state",
        "text": "Frozen-market scenes of every market type (uniswap, aave, uniswap+aave, squeeth with its pool, deribit incl. closed bars, "
        "GMX v1/v2, broker swaps) on one valuation basis are driven with random operation sequences with hostile arguments (zero, exactly the "
        "holding, a hair over/under, x10, x1e6, negative, unknown keys). Around every operation the monitor checks: net value does not rise "
        "beyond wallet dust (1e-5 of each touched balance); uniswap add/remove/collect and aave supply/withdraw/borrow/repay conserve it; pool "
        "swaps lose exactly the reported fee; no projected holding is negative; pay-outs (withdraw, collect, sell, redeem) do not exceed the "
        "holding they draw on.",
        "note": "Net value is the reported figure (C01 decides its honesty). Allowances on top of dust: 1e-24 relative (Decimal prec 35), 1e-9 "
        "relative in GMX v2 and squeeth scenes (float arithmetic), 2e-4 when an Aave market is present (its totals are quantised to 1e-4), the "
        "measured pool-vs-index price gap for squeeth LP deposit/withdraw. Sampled states and arguments. One protocol-faithful known finding "
        "(GM deposit with positive price impact) is listed in known_findings.jsonl.",
    },
    "C08": {
        "technique": "reference-model monitor: exact per-bar fee model fed from the raw input rows, compared with the change of every position's pending amounts across each update()",
        "text": "Generated pools (fee tiers, decimals, orientation, int64/float tick columns, 1 min / 5 min / 1 h bars, liquidity and volumes over "
        "many decades, closes exactly on range bounds, whole-range jumps, stationary ticks, empty pool rows) run through the real Actuator with "
        "scripts that open 1-4 positions and interleave unrelated operations in every phase; update() is bracketed and the pending-amount "
        "deltas of every position are compared with volume x rate x in-range path fraction x share, path starting at the previous bar's close.",
        "note": "Tolerance 1e-22 relative + 1e-32 of the pending total (accumulated prec-35 Decimals); with several own positions the share is "
        "bounded as the statement says; bar 0 only bounded. Sampled paths and scripts.",
    },
    "C12": {
        "technique": "step replay: every recorded LiquidationAction replayed in exact Fraction arithmetic against the state observed before/after each step of update()",
        "text": "Generated portfolios (1-3 collaterals, 1-3 debts, per-token liquidity and borrow indices that differ, debt prices below/above 1) are "
        "followed over bars whose prices are solved so that the health factor lands in chosen bands ((0.95,1), (0.5,0.95], (0,0.5], >=1, exactly "
        "on 1 / 0.95 and 1e-18 next to them), or whose prices never move while the borrow indices push the health factor under 1; Market.update() is run directly and through the Actuator loop and each step is checked: iff HF<1, "
        "close factor, seized = repaid value x (1+bonus) at the collateral's own index or everything with the repayment scaled down, wallet "
        "untouched, record = state change, net value drop = bonus x repaid, non-negative amounts, termination condition, no exception.",
        "note": "1e-15 relative + 2e-18 scaled units on amounts; HF within 1e-25 of a threshold may go either way. The choice of the "
        "collateral/debt pair is not constrained by the statement. Sampled portfolios.",
    },
    "C13": {
        "technique": "shadow recomputation: every derived view read after warmed-cache writes compared with a from-scratch exact recomputation from raw positions, indices, prices and risk rows",
        "text": "Random interleavings of 30-70 writes (supply, withdraw, borrow, repay with cash/collateral, collateral flag changes, liquidation via "
        "update(), new bars, re-pricing, rejected calls of each) on the real AaveV3Market; before each write a random subset of the 19 views is "
        "read to warm the caches, afterwards all views are read and each is compared with the recomputation (values, collateral flags, health "
        "factor, LTVs, APYs, market balance).",
        "note": "Equality up to the rounding a 35-digit Decimal implementation accumulates (propagated bound, floor 1e-30 relative); APYs within "
        "1e-24; 1e-4-quantised balance fields within half a quantum. Sampled interleavings.",
    },
    "C18": {
        "technique": "reference model of denoted bars (closed form, integer microseconds) compared with recorded firings, kwargs and retirement bar of every trigger run through the real bar loop",
        "text": "Generated bar grids (start minute, interval 1 min .. 1 day, 1-600 bars) are run through the real Actuator.run with 16-48 independent "
        "triggers of all six time-trigger classes, parameters placed relative to the grid (on/off a bar, with seconds, before/after the data, "
        "touching/overlapping ranges, periods that do / do not divide the interval, coinciding periods, delays, immediate flag), registered in "
        "initialize or later, a quarter of the periodic ones re-armed once by the public reset() (from before_bar, on_bar, after_bar or their "
        "own action; judged from then on as a freshly armed trigger whose first bar is the bar evaluated next); firing set, one call per firing with the extra arguments, and retirement only when no later bar is denoted.",
        "note": "Times are compared after truncation to the minute. Empty lists / zero periods are outside the specification. Sampled grids and "
        "parameters.",
    },
    "C20": {
        "technique": "reference-model monitor: every metric function called on generated series and compared with its definition computed in 60-digit Decimal",
        "text": "Generated positive net-value series (21 shape classes incl. largest-absolute vs largest-relative decline elsewhere, length 2..2000, "
        "float64/Decimal/int64, scales 1e-9..1e15, intervals 1 s .. 7 d) with benchmarks: max drawdown (definition, range, zero for never-falling, "
        "scale invariance), total/annualised return across their input forms, return series, volatility, Sharpe, alpha/beta and every entry of "
        "performance_metrics() against direct recomputation.",
        "note": "Float results compared at 1e-9 relative plus the unavoidable double rounding (amplified for annualised figures, compared in log "
        "space); ill-conditioned figures (admissible error > 1e-3) are not compared. Sampled series.",
    },
    "C16": {
        "technique": "offline checker over a per-bar event log (cash, positions, action records) of real Actuator runs against the settlement rule in Decimal",
        "text": "Generated hourly option books (calls and puts ITM / ATM / OTM / barely covering the fee / so deep in the money that a put pays more "
        "than one coin per contract, several positions with different "
        "expiries on the hour, between hours, before the first and after the last bar, instruments missing from the expiry-hour book, missing "
        "hours) are run through the real Actuator alone (1 h, 4 h) and next to a 1-min / 5-min co-market, with buy/sell attempted on every bar; "
        "the log is checked for: removal exactly once at the first open bar at or after expiry (never before), one Expired record, payoff = "
        "contracts x |S-K| / S minus min(0.015% x contracts, 12.5% x option value) when positive else nothing, trades accepted only on open bars.",
        "note": "Cash/position effects of accepted trades are C15's subject. An on-hour bar whose book has no rows may or may not settle; an "
        "instrument absent from the settlement-hour book may be charged any fee in [0, cap]. Sampled books and paths.",
    },
    "C19": {
        "technique": "differential monitor: each strategy's managed run (fresh interpreter per manager run, schedule varied and recorded) compared exactly with its solo run",
        "text": "The real BacktestManager is run over generated worlds (uni, aave, uni+aave, squeeth, GMX v1/v2, deribit; 1 min / 5 min / 1 h bars) "
        "with 2-6 seeded, state-dependent strategies (idle, LP, aave, all-markets, add_column indicator, a vandal that wrecks its own "
        "markets/broker after its run, a strategy that raises mid-run), permuted orders, 1/2/3/n workers, in-process and forked pool, "
        "seed-chosen sleeps; every strategy writes history, actions, final projection and pid from finalize(), and each managed record must "
        "equal the record of the same strategy run alone. Parameter sweeps (the same indicator column under different windows) and strategies "
        "that read the account history in mid-run are part of the mix. Evidence lists the distinct pid -> strategies assignments (schedules) observed.",
        "note": "'Alone' = the manager with that single strategy over an identically rebuilt configuration; in half of the cases that record is "
        "itself compared with the same configuration applied by hand to a bare Actuator. Schedules are sampled through sleeps, "
        "not enumerated; the Windows pool branch and threads > cpu_count are not exercised; a manager timeout gives INCONCLUSIVE.",
    },
    "C05": {
        "technique": "offline trace checker over an event log recorded by run-time class-attribute wrappers (strategy hooks, set_market_status/update of every market type, Trigger.when/do, the action-record callback) around the real Actuator.run; independently computed bar index and price table",
        "text": "Generated strategies (kit operations in initialize, before_bar, trigger actions, on_bar, after_bar and inside notify; triggers added "
        "at initialize and later) run through the real Actuator over 8 market mixes (uniswap, aave, squeeth+pool, GMX v1/v2 next to the hourly "
        "Deribit book; the book alone) x intervals 1min/5min/1h/4h (and other spellings/widths) x histories of 1, 2, 7, 60, 61, 1440 minutes, "
        "starts on/off the grid, holes in the book; scripted portfolios make markets act in update() (aave liquidation, option delivery/expiry, "
        "squeeth liquidation). Per bar of the independently resampled index the log must show, once and in order: before_bar, triggers, on_bar, "
        "every market's update exactly once, after_bar, notify; every action record is stamped with its bar, is in Actuator.actions and reaches "
        "notify exactly once after after_bar of that bar; every accepted state-changing operation left a record; the account history has one "
        "row per bar with the bar's timestamp and prices.",
        "note": "Sampled runs. The second status refresh, initialize/finalize counts and row_id are not asserted; accepted calls without any state "
        "effect and operations without an action type are exempt from the record clause; bin aggregation of market rows is not prescribed "
        "(membership only). Trusted: pandas datetime arithmetic, object identity of action records.",
    },
    "C07": {
        "technique": "reference-model monitor: Fraction re-implementation of LiquidityAmounts on the integer sqrt ratios compared with the real functions and with wallet deltas of a live market",
        "text": "Generated (sqrt price, tick range, decimals, offered amounts) incl. prices exactly on / one unit next to a bound, far outside, "
        "MIN/MAX sqrt ratio, ranges touching MIN/MAX tick, one-spacing ranges, offers 0 / 1 wei / 1e12 tokens are pushed through get_liquidity, "
        "get_amounts, V3CoreLib.new_position/close_position and add/remove on a live UniLpMarket: used <= offered, liquidity maximal within "
        "the stated slack, one-sidedness out of range and both sides inside, non-negativity, monotonicity on price ladders, proportionality to "
        "L, closed form within 1e-30, add-then-remove returns exactly what was used.",
        "note": "'Used <= offered' allows the statement's 1e-30 relative (prec-35 double rounding next to MAX tick). Through the live market a "
        "range end is the pool's lowest/highest usable tick (positions sit on multiples of the spacing, as in v3-core). Sampled inputs.",
    },
    "C09": {
        "technique": "differential monitor: the same base/quote script run on a token0-is-quote pool and on its mirror (ticks negated, per-token volumes swapped), every named result compared",
        "text": "Pools over decimals {6,8,18}^2 and fee tiers, price in / below / above the range, fee accrual over tick paths, buy / sell / swap / "
        "even_rebalance, add by price, by tick and by value in all its branches, estimate_amount / estimate_liquidity, remove and collect "
        "(partial, full): return values, wallet balances, position status, market balance and pending fees must agree within 1e-12 relative "
        "(0.1 % for the estimate-based helpers); a rejection must be mirrored by a rejection.",
        "note": "Three kinds of worlds: tick prices with paths kept 2 ticks off every range bound (fee accrual classifies by tick over half-open "
        "ranges, which is not mirror-symmetric on a bound); prices moved 0.05-0.95 of a tick into their tick; fee-free worlds whose closes sit "
        "exactly on range bounds (only the sqrt-price based results are comparable there). In the last two every token amount is measured "
        "against the largest amount of that token seen so far. |tick| <= 330000; after an estimate-based helper deviates by more than 1e-9 within its 0.1 % the rest of that script is not compared. Sampled.",
    },
    "C17": {
        "technique": "reference-model monitor: integer re-implementation of the GMX v1 Vault / GlpManager fee and mint/redeem rules and a float re-derivation of the v2 deposit/withdraw formulas, plus a same-bar round-trip monitor",
        "text": "Generated v1 pool states (token weights, USDG amounts below / at / above target and crossing it, zero target, 6/8/18-decimals tokens, "
        "amounts from 1 wei to 10 % of the pool) and real avalanche rows, v2 pools (balanced .. 10:1, virtual inventories, impact pool 0 .. "
        "large): fee bps in [0, 85] and within 1 bp of the Vault rule, minted/redeemed amounts per the round-down steps and token decimals, "
        "reward accrual pro rata (token weights changing across bars), v2 mint/redeem per pool value per share with fee factors and capped "
        "impact (short token on and off its peg) and the figures the result reports about itself, over-redemption rejected, and a "
        "buy-then-redeem round trip in one bar never returns more than was paid.",
        "note": "1 bp of the gross amount + rounding quanta on v1 amounts; float bounds on v2; within 2 wei of a fee-rule jump either side is "
        "accepted; v2 deposits the contract would revert are not issued. One protocol-faithful known finding (GM positive price impact > fees).",
    },
    "C11": {
        "technique": "reference-model monitor with a three-valued accept/reject frontier: exact Aave v3 risk definitions (Fraction) decide must-accept / must-reject / either for every request, and every reported figure is compared with its definition",
        "text": "Generated portfolios (1-5 collateral / non-collateral supplies, 0-4 debts over generated risk rows and price vectors) on the real "
        "AaveV3Market; borrow / withdraw / change_collateral requests at 0.5x, 0.99x, (1 +- 1e-6)x, 1.01x, 2x each true limit, the get_max_* "
        "helper amounts fed back (and measured against the true limit and the supplied amount), borrow(None) / withdraw(None): accepted only "
        "within the limit, requests with margin (and the token's flags) accepted, HF >= 1 with debt after every accepted operation, reported "
        "health factor / weighted max-LTV / liquidation threshold equal to the definitions.",
        "note": "Band 1e-9 relative around each limit (rounding of the two sides is unspecified) plus 1e-33 absolute slack for dust debts; a "
        "scaled residue below 1e-18 dropped by a partial withdrawal is tolerated in the post-operation HF. Frozen bar only; liquidation is "
        "C12's subject. Sampled portfolios.",
    },
    "C14": {
        "technique": "reference-model monitor with a three-valued accept/reject frontier and invariants after each accepted operation, through the real Actuator with a live TWAP window",
        "text": "Generated norm-factor / ETH / oSQTH paths (calm, crash, spike, one-bar wick; 1-min and 5-min bars; windows at the start of data) "
        "run through the real Actuator with real timestamps so that the seven-minute geometric-mean TWAP is live; vaults with and without LP "
        "collateral, several vaults, operation sequences incl. requests at (1 +- 1e-6)x the limit: mint / ETH withdrawal / LP withdrawal "
        "accepted only at >= 1.5x and >= 0.5 ETH (must-accept with margin), bar-end liquidation iff below 1.5x with the two-stage amounts (LP "
        "redeemed first with 2 % bounty, then half / all of the debt at TWAP oSQTH price x 1.1 capped at the collateral), non-negative vault "
        "fields, wallet/vault moves equal to the stated oSQTH and ETH, nothing moved by a refused request; one wallet in four has never held oSQTH.",
        "note": "Band 1e-9 around each limit (float TWAP). An operation that needs (nearly) more than the wallet holds gets no verdict. A negative vault is reported once and the rest of that case is not evaluated; a bounty "
        "stopped at the vault's collateral is accepted. An exact collateral == payment tie is not generated. Sampled paths and sequences.",
    },
    "C15": {
        "technique": "reference-model monitor: a sequential matching-engine model (per-instrument level lists, cash, positions, size-weighted averages) fed with the same order stream and compared after every order",
        "text": "Generated books (1-12 instruments, 0-8 levels a side, int / float / mixed sizes, ETH and BTC steps) and order streams of 1-12 buys and "
        "sells per bar in all pricing modes (market, price_in_token on / near / off a level, price_in_usd, mark-price caps excluding 0, some "
        "or all levels), then a refresh and more orders, plus sweep scenes that empty a side in two orders: fills best-first at displayed "
        "sizes, amount rounded half-up to the step, cost, fee = min(0.03 % x contracts, 12.5 % x premium) at the fee step, limit orders only "
        "at their level, caps, shrunk book visible until the refresh, cash / position / averages, equity = cash + positions at mark, "
        "unheld contracts unsellable.",
        "note": "Book sizes and fill sums compared at 1e-9 (the book stores floats); books sorted best-first with bids <= mark <= asks; a level "
        "exactly on a cap may go either way. Closed bars are C16's subject. Sampled books and streams.",
    },
    "C01": {
        "technique": "reference-model monitor: independent exact valuation plus an ownership ledger replayed from action records, compared with every AccountStatus taken by the real bar loop and after every direct operation",
        "text": "Multi-market accounts (uniswap+aave+gmx, squeeth with its pool and LP positions lent to / returned from / redeemed by a vault, "
        "deribit ETH/BTC-quoted next to a minutely pool with cash moved on closed bars and options settling in the loop, all six market types "
        "+ GMX v2, real-data slices) are run through the real Actuator (1- and 5-min bars, operations in every phase) with the account quote "
        "equal to and different from each market's quote, price frames on and off the pool prices, and (one run in five) a wallet that may be "
        "overdrawn (allow_negative_balance); frozen scenes are queried through "
        "Broker.get_account_status after every accepted or rejected operation. At every bar / query the reported asset value, wallet "
        "balances, each market's net value, the total, the sum formula with the quote-token conversion, the bar-end holdings and the "
        "account_status_df row are compared with a Fraction valuation computed from the state projection and the harness's own copies of "
        "the raw rows and price frame; every liquidity position is assigned to exactly one owner (pool market or vault) and counted once.",
        "note": "Tolerances: 1e-12 x gross scale; aave 1e-4 (its own rounding); deribit half a fee step per contract; squeeth 1e-9 on the "
        "float-TWAP part; gmx2 1e-9. On closed deribit bars options carry the mark of the last valued open bar; correctness of the position "
        "amounts themselves belongs to C07/C08/C10/C15/C17; ownership is read from action records. Sampled, not exhaustive.",
    },
    "C02": {
        "technique": "differential runtime monitor: real Actuator runs on a history and on prefix-identical histories with independently regenerated futures, compared bar by bar (account rows, actions, in-hook snapshot digests); deep before/after digests of every supplied frame; run-twice identity",
        "text": "Generated raw histories of every market type (uniswap float/int64 ticks, aave, uniswap+aave, squeeth with its pool and live TWAP, "
        "hourly deribit books next to a minutely pool in both attach orders, deribit alone, GMX v1, GMX v2) are prepared by demeter's own code "
        "(add_statistic_column, get_price_from_data helpers, set_token_data, set_price, every _resample) and run at 1min/5min/15min/1h under "
        "scripts whose every decision is seeded by the snapshot they were handed and by what the markets' read-only helpers answer in that "
        "hook (estimate_cost, estimate_amount / estimate_liquidity, get_max_*, TWAP, fee points, balances). For 2-3 "
        "cuts per history (first bar, last-but-one, mid, open position, mid-bin, book-hour edge) the future is regenerated (same length, "
        "shorter, longer, none) and every bar wholly inside the shared prefix must have identical account row, identical snapshots in "
        "before_bar/on_bar/after_bar (digested inside the hook) and identical recorded actions. Every supplied frame, and the frames held at "
        "run entry, must keep its deep digest (values with types, dtypes, index, nested ask/bid lists), and a second run on the same frame "
        "objects with a fresh Actuator/markets must reproduce the first exactly.",
        "note": "Sampled synthetic histories and scripts. A bar of an N-minute run owns the raw rows of [t, t+N). Triggers and initialize are "
        "not instrumented. Pandas >= 3 copy-on-write makes a dropped row .copy() unobservable. Deribit histories avoid 00:00; only the "
        "earliest difference of a pair is reported. Trusted: Python equality, repr of Decimal/float, sha1.",
    },
    "C04": {
        "technique": "invariant at quiescent points: deep state projection compared around every raising call, rejection sites taken from tracebacks",
        "text": "Frozen-market scenes of every market type (uniswap, aave, uniswap+aave, squeeth with its pool, deribit incl. closed bars, "
        "GMX v1/v2, broker wallet ops) are driven with random operation sequences whose arguments are chosen to be rejected for every "
        "cause (each token short, unsafe HF / collateral ratio, dust, flag mismatch, zero/negative/oversized amounts, unknown keys, closed "
        "market, thin book, price not in book); around each raising call the projection of wallet, positions, visible book and action log "
        "must be identical (multi-step helpers: identical to a transaction boundary); tokens the wallet holds nothing of are, half of the "
        "time, not registered in it. Evidence lists the rejection sites reached.",
        "note": "State = what public accessors show (vmon/drive.py project); caches and has_update flags are outside it. Sampled states and "
        "arguments; a rejection cause whose site never appears in the evidence was not exercised.",
    },
}

# Workload additions of session 4 (rounds 8-13 of seeded changes, a thorough sweep at new seeds); appended to the level text.
ADDED = {
    "C02": " The price feed of the Aave mixes may also quote a token nobody holds, and only from some minute on (NaN before): what the "
           "strategy is shown for it must not depend on its later quotes.",
    "C03": " Option books also come on a dyadic price grid with levels at simple multiples of the mark, with price caps placed exactly on a "
           "displayed level and quotes (estimate_cost) asked before orders; GM deposits include amounts worth about one ulp of the pool on "
           "pools with steep impact factors; a sixth of the typical amounts (a quarter of the broker's) are handed over as floats or ints.",
    "C04": " Twin scenes: before 30 % of the calls the whole scene is deep-copied; if the call is refused, the copy (which never saw it) is fed "
           "the next three operations next to the real scene and must agree with it in verdict, state, reported balances and action records.",
    "C06": " The tick handed to nearest_usable_tick is an int, a numpy integer, a float or a Decimal; the reverse conversion is probed at the top tick as well.",
    "C07": " In a third of the live cases a sibling pool (other decimals / quote side, same process) is shown the same Decimal price first; a quarter of the full removals ask for more liquidity than the position holds.",
    "C09": " Amount fractions include 0.999996 / 1.000004 of the balance (inside the wallet's 0.001 % tolerance without being equal); one "
           "deterministic probe per run reproduces the listed float-decimals-factor finding; in 30 % of the pairs the pool's tokens carry addresses and the quote token is an equal token written out again.",
    "C10": " In a third of the cases Aave on a second chain (same token names, other indices, same broker) is read and written in between; 30 % of the markets also list a reserve whose file has a hole; get_max_repay_amount is compared with the ledger's debt.",
    "C11": " In 30 % of the cases a second Aave market with the same token names lives under the same broker and is read and written in between.",
    "C12": " Index rows may repeat for stretches while prices move; one account in ten is worth a fraction of a cent (positions of a few atomic "
           "units); a sibling Aave market lives under the same broker in a quarter of the frozen cases.",
    "C13": " In 30 % of the cases a second Aave market with the same token names lives under the same broker and is read and written in between.",
    "C14": " Path kinds include flat ETH with a step-function norm factor (a vault that one liquidation does not cure must be looked at again "
           "while the market data repeat) and flat ETH / norm factor with a moving pool price.",
    "C15": " A quote (estimate_cost) is asked before 30 % of the orders and must leave the book alone.",
    "C16": " A third of the instruments carry a filled settlement_price column (the option's own settlement price, no part in the delivery rule).",
    "C17": " Deposits the model cannot decide (negative impact larger than the deposit, or worth about one ulp of the pool's USD figures) are "
           "issued as well: refused (nothing moves) or accepted with a non-negative mint; an absent virtual inventory is None or NaN; 8 % of the v2 worlds are single-token markets; v1 markets get their tokens registered in several add_token calls, some twice.",
    "C19": " One case in eight has 9-13 strategies (more than 4 x workers, so a pool chunks its task list); option traders ask for quotes; "
           "Aave mixes may contain a whale (everything supplied, a debt far below one atomic unit: figures at 1e30 and beyond); the vandal also triples a column of the price table its run was handed; half of the sequential runs are preceded by a single-strategy trial run over the same configuration.",
    "C20": " performance_metrics is also fed the same series with rows missing (duration = span covered).",
}
for _k, _v in ADDED.items():
    CHECKS[_k]["text"] = CHECKS[_k]["text"] + _v
