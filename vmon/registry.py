"""Which properties are claimed, and the per-check manifest texts.  tools/gen_manifest.py turns this into
MANIFEST.json."""
NOTES = (
    "All checks are runtime monitors over executions of the real code in /repo's working tree (imported fresh on "
    "every run). Exit 0 = held on everything explored, 1 = VIOLATION line with a replay file, 3 = INCONCLUSIVE "
    "(a monitor's reach floor was not met or a shard hit the watchdog). Genuine defects that are not repaired are "
    "listed in known_findings.jsonl by mechanism and printed as KNOWN-FINDING lines."
)
NOT_APPLICABLE = {}
CHECKS = {
    "C06": {
        "technique": "exhaustive enumeration of all ticks against a 90-digit Decimal reference; floor checked by definition on tick boundaries",
        "text": "Every one of the 1,774,545 ticks is converted by the real get_sqrt_ratio_at_tick and compared with "
        "sqrt(1.0001^tick)*2^96 at 90 digits (band, strict monotonicity, boundary constants) in both tiers; the reverse "
        "conversion is probed on/next to/between the real tick boundaries (every third tick quick, every tick thorough) and must "
        "return the floor; price helpers and nearest_usable_tick are sampled over decimals, orientations and spacings.",
        "note": "Trusted: Python Decimal at prec 90 and Fraction. Reverse direction and helpers are sampled, not exhaustive, over "
        "sqrt prices strictly between boundaries (4 probes per tick).",
    },
    "C10": {
        "technique": "reference-model monitor: exact Fraction scaled-balance ledger fed with the same accepted operations, compared after every operation and bar change",
        "text": "Random interleavings of supply/withdraw/borrow/repay (cash, collateral of the same or another token, partial, all, "
        "split in parts) over generated index paths (flat/slow/jumpy, liquidity != borrow index, per token) are run on the real "
        "AaveV3Market; after every operation and every bar change every position amount is compared with the exact ledger (5e-19), "
        "wallet deltas and action records with the stated amounts, and fully repaid/withdrawn positions must disappear.",
        "note": "Sampled sequences (not exhaustive). Sequences stop at the first rejection; liquidation is not triggered here. "
        "Wallet equality is up to the Decimal context precision (35 digits).",
    },
    "C03": {
        "technique": "invariant at quiescent points: reported net value and deep state projection compared around every operation (accepted or rejected) at a frozen market state",
        "text": "Frozen-market scenes of every market type (uniswap, aave, uniswap+aave, squeeth with its pool, deribit incl. closed bars, "
        "GMX v1/v2, broker swaps) on one valuation basis are driven with random operation sequences with hostile arguments (zero, exactly the "
        "holding, a hair over/under, x10, x1e6, negative, unknown keys). Around every operation the monitor checks: net value does not rise "
        "beyond wallet dust (1e-5 of each touched balance); uniswap add/remove/collect and aave supply/withdraw/borrow/repay conserve it; pool "
        "swaps lose exactly the reported fee; no projected holding is negative; pay-outs (withdraw, collect, sell, redeem) do not exceed the "
        "holding they draw on.",
        "note": "Net value is the reported figure (C01 decides its honesty). Allowances on top of dust: 1e-24 relative (Decimal prec 35), 1e-9 "
        "relative in GMX v2 and squeeth scenes (float arithmetic), 2e-4 when an Aave market is present (its totals are quantised to 1e-4), the "
        "measured pool-vs-index price gap for squeeth LP deposit/withdraw. Sampled states and arguments. One protocol-faithful known finding "
        "(GM deposit with positive price impact) is listed in known_findings.jsonl.",
    },
    "C08": {
        "technique": "reference-model monitor: exact per-bar fee model fed from the raw input rows, compared with the change of every position's pending amounts across each update()",
        "text": "Generated pools (fee tiers, decimals, orientation, int64/float tick columns, 1 min / 5 min / 1 h bars, liquidity and volumes over "
        "many decades, closes exactly on range bounds, whole-range jumps, stationary ticks, empty pool rows) run through the real Actuator with "
        "scripts that open 1-4 positions and interleave unrelated operations in every phase; update() is bracketed and the pending-amount "
        "deltas of every position are compared with volume x rate x in-range path fraction x share, path starting at the previous bar's close.",
        "note": "Tolerance 1e-22 relative + 1e-32 of the pending total (accumulated prec-35 Decimals); with several own positions the share is "
        "bounded as the statement says; bar 0 only bounded. Sampled paths and scripts.",
    },
    "C12": {
        "technique": "step replay: every recorded LiquidationAction replayed in exact Fraction arithmetic against the state observed before/after each step of update()",
        "text": "Generated portfolios (1-3 collaterals, 1-3 debts, per-token liquidity and borrow indices that differ, debt prices below/above 1) are "
        "followed over bars whose prices are solved so that the health factor lands in chosen bands ((0.95,1), (0.5,0.95], (0,0.5], >=1, exactly "
        "on 1 / 0.95 and 1e-18 next to them); Market.update() is run directly and through the Actuator loop and each step is checked: iff HF<1, "
        "close factor, seized = repaid value x (1+bonus) at the collateral's own index or everything with the repayment scaled down, wallet "
        "untouched, record = state change, net value drop = bonus x repaid, non-negative amounts, termination condition, no exception.",
        "note": "1e-15 relative + 2e-18 scaled units on amounts; HF within 1e-25 of a threshold may go either way. The choice of the "
        "collateral/debt pair is not constrained by the statement. Sampled portfolios.",
    },
    "C13": {
        "technique": "shadow recomputation: every derived view read after warmed-cache writes compared with a from-scratch exact recomputation from raw positions, indices, prices and risk rows",
        "text": "Random interleavings of 30-70 writes (supply, withdraw, borrow, repay with cash/collateral, collateral flag changes, liquidation via "
        "update(), new bars, re-pricing, rejected calls of each) on the real AaveV3Market; before each write a random subset of the 19 views is "
        "read to warm the caches, afterwards all views are read and each is compared with the recomputation (values, collateral flags, health "
        "factor, LTVs, APYs, market balance).",
        "note": "Equality up to the rounding a 35-digit Decimal implementation accumulates (propagated bound, floor 1e-30 relative); APYs within "
        "1e-24; 1e-4-quantised balance fields within half a quantum. Sampled interleavings.",
    },
    "C18": {
        "technique": "reference model of denoted bars (closed form, integer microseconds) compared with recorded firings, kwargs and retirement bar of every trigger run through the real bar loop",
        "text": "Generated bar grids (start minute, interval 1 min .. 1 day, 1-600 bars) are run through the real Actuator.run with 16-48 independent "
        "triggers of all six time-trigger classes, parameters placed relative to the grid (on/off a bar, with seconds, before/after the data, "
        "touching/overlapping ranges, periods that do / do not divide the interval, coinciding periods, delays, immediate flag), registered in "
        "initialize or later; firing set, one call per firing with the extra arguments, and retirement only when no later bar is denoted.",
        "note": "Times are compared after truncation to the minute. Empty lists / zero periods are outside the specification. Sampled grids and "
        "parameters.",
    },
    "C20": {
        "technique": "reference-model monitor: every metric function called on generated series and compared with its definition computed in 60-digit Decimal",
        "text": "Generated positive net-value series (21 shape classes incl. largest-absolute vs largest-relative decline elsewhere, length 2..2000, "
        "float64/Decimal/int64, scales 1e-9..1e15, intervals 1 s .. 7 d) with benchmarks: max drawdown (definition, range, zero for never-falling, "
        "scale invariance), total/annualised return across their input forms, return series, volatility, Sharpe, alpha/beta and every entry of "
        "performance_metrics() against direct recomputation.",
        "note": "Float results compared at 1e-9 relative plus the unavoidable double rounding (amplified for annualised figures, compared in log "
        "space); ill-conditioned figures (admissible error > 1e-3) are not compared. Sampled series.",
    },
    "C04": {
        "technique": "invariant at quiescent points: deep state projection compared around every raising call, rejection sites taken from tracebacks",
        "text": "Frozen-market scenes of every market type (uniswap, aave, uniswap+aave, squeeth with its pool, deribit incl. closed bars, "
        "GMX v1/v2, broker wallet ops) are driven with random operation sequences whose arguments are chosen to be rejected for every "
        "cause (each token short, unsafe HF / collateral ratio, dust, flag mismatch, zero/negative/oversized amounts, unknown keys, closed "
        "market, thin book, price not in book); around each raising call the projection of wallet, positions, visible book and action log "
        "must be identical (multi-step helpers: identical to a transaction boundary). Evidence lists the rejection sites reached.",
        "note": "State = what public accessors show (vmon/drive.py project); caches and has_update flags are outside it. Sampled states and "
        "arguments; a rejection cause whose site never appears in the evidence was not exercised.",
    },
}
