"""python -m vmon.shard <ID> <tier> <seed> <spec.json> <out.json>  — runs one shard of one check in this process."""
import faulthandler
import importlib
import json
import os
import sys
import traceback


def main():
    pid, tier, seed, spec_path, out_path = sys.argv[1:6]
    faulthandler.enable()
    cov = None
    if os.environ.get("VERIF_COVERAGE"):  # tools/coverage_report.py: which lines of demeter the workloads reach
        import coverage

        cov = coverage.Coverage(data_file=os.path.join(os.environ["VERIF_COVERAGE"], ".coverage"), data_suffix=True, branch=True,
                                source=[os.path.join(os.environ.get("REPO_DIR", "/repo"), "demeter")])
        cov.start()
    from . import env

    env.setup()
    from . import core

    with open(spec_path) as fh:
        spec = json.load(fh)
    spec["tier"] = tier
    mod = importlib.import_module(f"vmon.checks.{pid.lower()}")
    mon = core.Monitor(pid, spec, int(seed))
    try:
        mod.run(spec, mon)
    except Exception:
        traceback.print_exc()
        sys.exit(2)
    if cov is not None:
        cov.stop()
        cov.save()
    with open(out_path, "w") as fh:
        json.dump(mon.result(), fh, default=str)


if __name__ == "__main__":
    main()
