"""Frozen-market scenes for C03/C04: one market mix, one consistent valuation basis (wallet prices are the
markets' own prices), kits that generate operations."""
from datetime import timedelta
from decimal import Decimal

import pandas as pd

from . import drive as Dr
from . import opsgen as G
from . import worlds as W

MIXES = ("uni", "uni", "aave", "aave", "uni+aave", "squeeth", "squeeth", "deribit", "deribit", "gmx", "gmx2")


class Scene:
    def __init__(self, mix, fz, kits, index, price_df, info):
        self.mix = mix
        self.fz = fz
        self.kits = kits
        self.index = index
        self.price_df = price_df
        self.info = info
        self.bar = 0
        self.broker_kit = None

    def gen(self, rng):
        if self.broker_kit is not None and rng.random() < 0.06:
            return self.broker_kit.gen(rng, self.fz.broker, self.fz.prices)
        kit = rng.choice(self.kits)
        return kit.gen(rng, self.fz.broker)

    def move(self, rng, bar=None):
        self.bar = rng.randrange(len(self.index)) if bar is None else bar
        self.fz.set_bar(self.index[self.bar], self.price_df.loc[self.index[self.bar]])


def _usd():
    from demeter._typing import USD

    return USD


def _frozen(rng, markets, prices_row, quote_token, assets, timestamp):
    """a token the wallet holds nothing of is, half of the time, not registered in the wallet at all (the broker creates
    the entry when something is first credited)"""
    if rng is not None:
        assets = {k: v for k, v in assets.items() if v != 0 or rng.random() < 0.5}
    return Dr.Frozen(markets, prices_row, quote_token, assets, timestamp)


def build(rng, mix, n=12, consistent=True, drop_zero_assets=False):
    from demeter import TokenInfo

    start = W.T0
    info = {"mix": mix}
    if mix in ("uni", "uni+aave"):
        d0, d1 = rng.choice([6, 8, 18]), rng.choice([6, 8, 18])
        q0 = rng.random() < 0.5
        if mix == "uni+aave":
            names, d0, d1 = ("USDC", "WETH"), 6, 18
            q0 = True
        else:
            names = ("TKA", "TKB")
        fee = rng.choice([0.01, 0.05, 0.3, 1])
        uw = W.UniWorld(rng, n=n, d0=d0, d1=d1, token0_is_quote=q0, fee=fee, names=names, path=rng.choice(["walk", "calm", "jump"]),
                        price=(2000.0 if mix == "uni+aave" else None))
        um = uw.market("uni")
        pdf, quote = um.get_price_from_data()
        pdf = pdf.map(lambda y: W.D(y))
        markets, kits = [um], [G.UniKit(um)]
        assets = {um.base_token: Decimal(rng.choice([0, 1, 50, 10**4])) , um.quote_token: Decimal(rng.choice([0, 1000, 10**6]))}
        info.update({"decimals": [d0, d1], "token0_is_quote": q0, "fee": fee})
        if mix == "uni+aave":
            extra = W.price_frame(rng, uw.index, ["WBTC", "DAI"], "walk")
            pdf = pd.concat([pdf, extra], axis=1)
            aw = W.AaveWorld(rng, n=n, tokens=(("WETH", 18), ("USDC", 6), ("WBTC", 8), ("DAI", 18)), prices=pdf, index_kind="slow")
            am = aw.market("aave")
            markets.append(am)
            kits.append(G.AaveKit(am, aw))
            for t in aw.tokens:
                assets.setdefault(t, Decimal(0))
                assets[t] += Decimal(rng.choice([0, 10, 5000]))
        pdf["USD"] = Decimal(1)
        fz = _frozen(rng if drop_zero_assets else None, markets, pdf.iloc[0], quote, assets, uw.index[0])
        sc = Scene(mix, fz, kits, uw.index, pdf, info)
        sc.broker_kit = G.BrokerKit(list(assets.keys()))
        return sc
    if mix == "aave":
        toks = rng.sample([("WETH", 18), ("USDC", 6), ("WBTC", 8), ("DAI", 18), ("LINK", 18)], rng.randint(2, 5))
        aw = W.AaveWorld(rng, n=n, tokens=toks, index_kind=rng.choice(["flat", "slow", "jumpy"]))
        am = aw.market("aave")
        pdf = aw.prices.copy()
        pdf["USD"] = Decimal(1)
        assets = {t: Decimal(rng.choice([0, 5, 1000, 10**6])) for t in aw.tokens}
        fz = _frozen(rng if drop_zero_assets else None, [am], pdf.iloc[0], _usd(), assets, aw.index[0])
        sc = Scene(mix, fz, [G.AaveKit(am, aw)], aw.index, pdf, info)
        sc.broker_kit = G.BrokerKit(list(assets.keys()))
        return sc
    if mix == "squeeth":
        # flat history so that the trailing TWAP equals the spot price, and one price for oSQTH everywhere
        prem = 1.0 if consistent else rng.uniform(0.9, 1.3)
        sw = W.SqueethWorld(rng, n=n, kind="flat", premium=prem)
        um, sm = sw.markets("uni", "squeeth")
        if consistent:
            sm.data["OSQTH"] = um.data["price"].values
        pdf = sm.get_price_from_data().map(lambda y: W.D(y))
        pdf["USD"] = Decimal(1)
        weth, osqth = TokenInfo("weth", 18), TokenInfo("osqth", 18)
        assets = {weth: Decimal(rng.choice([0, 1, 40, 5000])), osqth: Decimal(rng.choice([0, 0, 30]))}
        fz = _frozen(rng if drop_zero_assets else None, [um, sm], pdf.iloc[0], _usd(), assets, sw.index[0])
        info["premium"] = prem
        return Scene(mix, fz, [G.SqueethKit(sm, um), G.SqueethKit(sm, um), G.UniKit(um)], sw.index, pdf, info)
    if mix == "deribit":
        token = rng.choice(["ETH", "ETH", "BTC"])
        hours = 3
        dw = W.DeribitWorld(rng, hours=hours, n_instr=rng.randint(1, 5), token=token, size_kind=rng.choice(["int", "float", "mixed"]),
                            closed_prob=0.15, dyadic=rng.random() < 0.3)
        dm = dw.market("deribit")
        # minute index covering the hours, so that most bars are closed bars
        index = [dw.hours[0] + timedelta(minutes=20 * i) for i in range(hours * 3)]
        pdf = pd.DataFrame({token: dw.minute_prices(index)}, index=pd.DatetimeIndex(index))
        pdf["USD"] = Decimal(1)
        assets = {dm.token: Decimal(rng.choice([0, 1, 200]))}
        fz = _frozen(rng if drop_zero_assets else None, [dm], pdf.iloc[0], _usd(), assets, index[0])
        if rng.random() < 0.8:
            Dr.call_op(dm.deposit, assets[dm.token] / 2)
        return Scene(mix, fz, [G.DeribitKit(dm, dw)], index, pdf, info)
    if mix == "gmx":
        gw = W.GmxWorld(rng, n=n)
        gm = gw.market("gmx")
        pdf = gw.prices()
        pdf["USD"] = Decimal(1)
        assets = {t: Decimal(rng.choice([0, 3, 2000])) for t in gw.tokens}
        fz = _frozen(rng if drop_zero_assets else None, [gm], pdf.iloc[0], _usd(), assets, gw.index[0])
        return Scene(mix, fz, [G.GmxKit(gm, gw)], gw.index, pdf, info)
    if mix == "gmx2":
        g2 = W.Gmx2World(rng, n=n)
        m2 = g2.market("gmx2")
        pdf = g2.prices()
        pdf["USD"] = Decimal(1)
        assets = {g2.long: Decimal(rng.choice([0, 5, 3000])), g2.short: Decimal(rng.choice([0, 10**4, 10**7]))}
        fz = _frozen(rng if drop_zero_assets else None, [m2], pdf.iloc[0], _usd(), assets, g2.index[0])
        return Scene(mix, fz, [G.Gmx2Kit(m2, g2)], g2.index, pdf, info)
    raise ValueError(mix)
