"""./check <ID> --tier quick|thorough [--seed N] [--jobs N]   |   ./check <ID> --replay <file>"""
import argparse
import concurrent.futures as cf
import importlib
import json
import os
import shutil
import subprocess
import sys
import tempfile
import time

from . import core

SHARD_TIMEOUT = {"quick": 900, "thorough": 5400}


def acquire_slot(tier="quick"):
    """Machine-wide throttle: at most VERIF_SLOTS (default 3) check runs drive their 16 shards at the same time, so that
    concurrent invocations (probes, sweeps) do not push shards into the wall-clock watchdog.  Waiting is not counted
    against any shard.  Returns the open lock file (kept until exit)."""
    import fcntl

    n = int(os.environ.get("VERIF_SLOTS", "3" if tier == "quick" else "2") or 3)
    if n <= 0:
        return None
    d = os.path.join(tempfile.gettempdir(), "vmon-slots")
    try:
        os.makedirs(d, exist_ok=True)
        files = [open(os.path.join(d, f"{tier}{i}.lock"), "a+") for i in range(n)]
    except OSError:
        return None
    waited = 0.0
    while True:
        for f in files:
            try:
                fcntl.flock(f, fcntl.LOCK_EX | fcntl.LOCK_NB)
                for g in files:
                    if g is not f:
                        g.close()
                return f
            except OSError:
                continue
        time.sleep(0.5)
        waited += 0.5
        if waited > 6 * 3600:
            return None


def load_check(pid):
    return importlib.import_module(f"vmon.checks.{pid.lower()}")


def run_shard_subprocess(pid, spec, tier, seed, tmpdir, timeout):
    i = spec.get("shard", 0)
    spec_path = os.path.join(tmpdir, f"spec{i}.json")
    out_path = os.path.join(tmpdir, f"out{i}.json")
    with open(spec_path, "w") as fh:
        json.dump(spec, fh)
    cmd = [sys.executable, "-m", "vmon.shard", pid, tier, str(seed), spec_path, out_path]
    try:
        p = subprocess.run(cmd, timeout=timeout, stdout=subprocess.PIPE, stderr=subprocess.PIPE, text=True)
    except subprocess.TimeoutExpired:
        return None, f"shard {i} hit the {timeout}s watchdog"
    if p.returncode != 0 or not os.path.exists(out_path):
        tail = (p.stderr or "")[-1500:]
        return None, f"shard {i} died rc={p.returncode}: {tail}"
    with open(out_path) as fh:
        return json.load(fh), None


def main(argv=None):
    ap = argparse.ArgumentParser()
    ap.add_argument("pid")
    ap.add_argument("--tier", default=os.environ.get("VERIF_TIER", "quick"), choices=["quick", "thorough"])
    ap.add_argument("--seed", type=int, default=int(os.environ.get("VERIF_SEED", "0") or 0))
    ap.add_argument("--jobs", type=int, default=int(os.environ.get("VERIF_JOBS", "16")))
    ap.add_argument("--replay")
    ap.add_argument("--no-evidence", action="store_true")
    a = ap.parse_args(argv)
    pid = a.pid.upper()
    mod = load_check(pid)
    _slot = acquire_slot("quick" if a.replay else a.tier)
    t0 = time.time()

    if a.replay:
        with open(a.replay) as fh:
            rep = json.load(fh)
        spec = dict(rep["shard"])
        spec["only_case"] = rep["case"]
        tmpdir = tempfile.mkdtemp(prefix="vmon-replay-")
        try:
            res, err = run_shard_subprocess(pid, spec, rep.get("tier", "quick"), rep["seed"], tmpdir, 3600)
        finally:
            shutil.rmtree(tmpdir, ignore_errors=True)
        if err:
            print(f"INCONCLUSIVE property={pid} reason={err}")
            return 3
        merged = core.merge([res])
        meta = dict(getattr(mod, "META", {}))
        return core.conclude(pid, rep.get("tier", "quick"), rep["seed"], merged, meta, time.time() - t0, [], False)

    specs = mod.plan(a.tier, a.seed)
    for i, s in enumerate(specs):
        s.setdefault("shard", i)
    tmpdir = tempfile.mkdtemp(prefix="vmon-run-")
    results, problems = [], []
    try:
        with cf.ThreadPoolExecutor(max_workers=max(1, a.jobs)) as ex:
            futs = [
                ex.submit(run_shard_subprocess, pid, s, a.tier, a.seed, tmpdir, SHARD_TIMEOUT[a.tier]) for s in specs
            ]
            for f in futs:
                res, err = f.result()
                if err:
                    problems.append(err)
                else:
                    results.append(res)
    finally:
        shutil.rmtree(tmpdir, ignore_errors=True)
    merged = core.merge(results)
    meta = dict(getattr(mod, "META", {}))
    meta["shards"] = len(specs)
    if hasattr(mod, "floors"):
        problems.extend(mod.floors(merged, a.tier) or [])
    if merged["evaluations"] == 0:
        problems.append("no oracle comparison was performed")
    if len(merged["nontrivial"]) < 2:
        problems.append("fewer than 2 distinct non-trivial cases observed")
    return core.conclude(pid, a.tier, a.seed, merged, meta, time.time() - t0, problems, not a.no_evidence)


if __name__ == "__main__":
    sys.exit(main())
